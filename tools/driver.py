#!/usr/bin/env python3
"""./check <property> [--tier quick|thorough] [--replay <file>]

Decides one property of scrayosnet/passage on /repo's current working tree:
  1. regenerate the Coq files translated from the Rust sources,
  2. build the property's theorems (full .vo build) and audit them,
  3. build the correspondence harness against /repo and run it with the seed,
  4. evaluate the Gallina model and the property's monitor on every recorded case,
  5. when a theorem, a translator tie or the correspondence broke: search for a failing
     input with a larger targeted batch,
  6. write evidence/<id>.json, print KNOWN-FINDING / VIOLATION lines, exit 0 / 1.
"""
import os, sys, re, json, time, subprocess, hashlib, fcntl, shutil, argparse, concurrent.futures

ROOT = os.path.dirname(os.path.dirname(os.path.abspath(__file__)))
COQ = os.path.join(ROOT, "coq")
HARNESS = os.path.join(ROOT, "harness")
WORK = os.path.join(ROOT, "work")
REPO = os.environ.get("PASSAGE_REPO", "/repo")
sys.path.insert(0, os.path.join(ROOT, "tools"))
import props as PROPS_MOD  # noqa: E402

ENV = dict(os.environ, CARGO_NET_OFFLINE="true", GOPROXY="off", PIP_NO_INDEX="1")


def sh(cmd, cwd=None, timeout=3600, env=None):
    p = subprocess.run(cmd, cwd=cwd, shell=isinstance(cmd, str), stdout=subprocess.PIPE,
                       stderr=subprocess.STDOUT, timeout=timeout, env=env or ENV)
    return p.returncode, p.stdout.decode("utf-8", "replace")


class Lock:
    def __init__(self, name):
        os.makedirs(WORK, exist_ok=True)
        self.f = open(os.path.join(WORK, name), "w")
    def __enter__(self):
        fcntl.flock(self.f, fcntl.LOCK_EX); return self
    def __exit__(self, *a):
        fcntl.flock(self.f, fcntl.LOCK_UN); self.f.close()


# ------------------------------------------------------------------ Coq side
def regenerate():
    """translators: Rust sources -> coq/Gen/*.v (written only when changed)"""
    rc, out = sh([sys.executable, os.path.join(ROOT, "tools", "translate_packets.py")])
    return rc == 0, out


def ensure_makefile():
    mk = os.path.join(COQ, "Makefile")
    cp = os.path.join(COQ, "_CoqProject")
    if not os.path.exists(mk) or os.path.getmtime(mk) < os.path.getmtime(cp):
        sh("coq_makefile -f _CoqProject -o Makefile", cwd=COQ)


def coq_make(targets, timeout=1500):
    ensure_makefile()
    rc, out = sh(["timeout", str(timeout), "make", "-j16"] + targets, cwd=COQ, timeout=timeout + 60)
    return rc == 0, out


def failing_item(out):
    """name the file / theorem a failed make stopped at"""
    m = re.search(r'File "\./([^"]+)", line (\d+)', out)
    if not m:
        return {"file": None, "item": None, "message": out[-800:]}
    f, line = m.group(1), int(m.group(2))
    item = None
    try:
        src = open(os.path.join(COQ, f)).read().split("\n")
        for l in src[:line][::-1]:
            mm = re.match(r"\s*(Theorem|Lemma|Corollary|Example|Definition|Fixpoint)\s+(\w+)", l)
            if mm:
                item = mm.group(2); break
    except OSError:
        pass
    msg = out[m.start():][:600]
    return {"file": f, "item": item, "message": msg}


FORBIDDEN = re.compile(r"\b(Admitted|admit|Axiom|Axioms|Parameter|Parameters|Conjecture|Conjectures|Admit Obligations)\b"
                       r"|Unset\s+Guard|Unset\s+Positivity|Unset\s+Universe|bypass_check|-type-in-type|-impredicative-set")


def audit_sources():
    """no Admitted/admit/Axiom/Parameter/... and no switched-off kernel check anywhere"""
    bad = []
    for dp, dn, fn in os.walk(COQ):
        for f in fn:
            if not f.endswith(".v"): continue
            p = os.path.join(dp, f)
            src = open(p, errors="replace").read()
            src_nc = re.sub(r"\(\*.*?\*\)", "", src, flags=re.S)
            for m in FORBIDDEN.finditer(src_nc):
                bad.append("%s: %s" % (os.path.relpath(p, COQ), m.group(0)))
            # Variable/Hypothesis outside a section
            depth = 0
            for line in src_nc.split("\n"):
                if re.match(r"\s*Section\s+\w+", line): depth += 1
                elif re.match(r"\s*End\s+\w+", line) and depth > 0: depth -= 1
                elif depth == 0 and re.match(r"\s*(Variable|Variables|Hypothesis|Hypotheses|Context)\b", line):
                    bad.append("%s: %s outside a section" % (os.path.relpath(p, COQ), line.strip()[:40]))
    proj = open(os.path.join(COQ, "_CoqProject")).read()
    for m in FORBIDDEN.finditer(proj):
        bad.append("_CoqProject: " + m.group(0))
    return bad


def props_compile(props_file):
    """(re)compile the pinned-statement file and return Print Assumptions output"""
    vo = os.path.join(COQ, props_file + "o")
    if os.path.exists(vo): os.remove(vo)
    ok, out = coq_make([props_file + "o"])
    return ok, out


def parse_assumptions(out):
    """-> list of (closed: bool, axioms: [names])"""
    res = []
    for blk in re.split(r"(?=Closed under the global context|Axioms:)", out):
        if blk.startswith("Closed under the global context"):
            res.append((True, []))
        elif blk.startswith("Axioms:"):
            names = re.findall(r"^([A-Za-z_][\w.']*)\s*:", blk[len("Axioms:"):], flags=re.M)
            res.append((False, names))
    return res


def count_theorems(props_file, upto_line=None):
    src = open(os.path.join(COQ, props_file)).read().split("\n")
    names = []
    for i, l in enumerate(src):
        if upto_line is not None and i + 1 >= upto_line: break
        m = re.match(r"\s*(Theorem)\s+(\w+)", l)
        if m: names.append(m.group(2))
    return names


# ------------------------------------------------------------------ harness side
def build_harness(bins, crate=HARNESS):
    lock = os.path.join(crate, "Cargo.lock")
    if not os.path.exists(lock):
        shutil.copy(os.path.join(REPO, "Cargo.lock"), lock)
    args = ["cargo", "build", "--offline", "-q"]
    for b in bins: args += ["--bin", b]
    rc, out = sh(args, cwd=crate, timeout=3000)
    return rc == 0, out


def run_harness(bin_name, seed, scale, extra_env=None, crate=HARNESS, timeout=None):
    if timeout is None: timeout = 600 + 240 * int(scale)
    env = dict(ENV, VERIF_SEED=str(seed), VERIF_SCALE=str(scale))
    if extra_env: env.update(extra_env)
    exe = os.path.join(crate, "target", "debug", bin_name)
    # a harness that does not come back (a handler that blocks the runtime thread for good: a lock taken twice, a blocking
    # close) is stopped; what it printed until then is still evaluated and the blockage itself is reported
    pr = subprocess.Popen([exe], stdout=subprocess.PIPE, stderr=subprocess.PIPE, env=env, cwd=crate)
    try:
        out, errb = pr.communicate(timeout=timeout)
        rc = pr.returncode
    except subprocess.TimeoutExpired:
        pr.kill()
        out, errb = pr.communicate()
        rc = 124
        errb = (errb or b"") + ("\nharness %s did not finish within %d s: stopped after %d case lines (the runtime thread is blocked?)"
                                % (bin_name, timeout, out.count(b"\nCASE "))).encode()
    class _P: pass
    p = _P(); p.stdout, p.stderr, p.returncode = out, errb, rc
    cases, notes = [], []
    for line in p.stdout.decode("utf-8", "replace").split("\n"):
        if line.startswith("CASE "):
            _, fam, term = line.split(" ", 2)
            cases.append((fam, term))
        elif line.startswith("NOTE "):
            notes.append(line[5:])
    return p.returncode, cases, notes, p.stderr.decode("utf-8", "replace")[-2000:]


def bin_spec(spec, bin_name, fam=None):
    """typing information (imports, case type, checkers) for the cases of one harness binary / family"""
    ft = spec.get("family_types", {})
    if fam is not None and fam in ft:
        return ft[fam]
    for b in spec["harness"]:
        if b["bin"] == bin_name and "case_type" in b:
            return b
    return spec


def eval_cases(pid, spec, cases, tag):
    """evaluate checker(case) for every case with vm_compute in parallel coqc processes.
    cases: list of (family, term[, bin]).  returns (codes: list[int|None], errors: [str])"""
    wd = os.path.join(WORK, pid, tag)
    shutil.rmtree(wd, ignore_errors=True)
    os.makedirs(wd)
    groups = {}
    ft = spec.get("family_types", {})
    for i, c in enumerate(cases):
        groups.setdefault((c[2] if len(c) > 2 else None, c[0] if c[0] in ft else None), []).append(i)
    files = []
    k = 0
    for (bname, gfam), members in groups.items():
        bs = bin_spec(spec, bname, gfam) if (bname or gfam) else spec
        shard = bs.get("shard", spec.get("shard", 250))
        hdr = ("From Passage Require Import %s.\nLocal Open Scope Z_scope.\nSet Printing Depth 1000000.\nSet Printing Width 160.\n"
               % " ".join(bs["imports"]))
        for j in range(0, len(members), shard):
            idxs = members[j:j + shard]
            path = os.path.join(wd, "cases_%d.v" % k); k += 1
            with open(path, "w") as f:
                f.write(hdr)
                for i in idxs:
                    f.write("Definition c%d : %s := %s.\n" % (i, bs["case_type"], cases[i][1]))
                f.write("Definition results : list (Z * Z) := [%s].\n" % "; ".join(
                    "(%d, %s c%d)" % (i, bs["checkers"][cases[i][0]], i) for i in idxs))
                f.write("Eval vm_compute in results.\n")
            files.append((path, idxs))
    codes = [None] * len(cases)
    errors = []
    def one(item):
        path, idxs = item
        rc, out = sh(["timeout", "900", "coqc", "-noglob", "-Q", COQ, "Passage", path], cwd=wd, timeout=1000)
        return rc, out, idxs, path
    with concurrent.futures.ThreadPoolExecutor(max_workers=16) as ex:
        for rc, out, idxs, path in ex.map(one, files):
            if rc != 0:
                errors.append("%s: %s" % (os.path.basename(path), out[-600:]))
                continue
            for m in re.finditer(r"\(\s*(\d+),\s*(\d+)\s*\)", out):
                codes[int(m.group(1))] = int(m.group(2))
    return codes, errors


# ------------------------------------------------------------------ main flow
def load_known():
    p = os.path.join(ROOT, "known_findings.json")
    if not os.path.exists(p): return []
    return json.load(open(p))["findings"]


def write_replay(pid, seed, n, payload):
    os.makedirs(os.path.join(ROOT, "replays"), exist_ok=True)
    path = os.path.join(ROOT, "replays", "%s-%s-%d.json" % (pid, seed, n))
    json.dump(payload, open(path, "w"), indent=1)
    return os.path.relpath(path, ROOT)


def run_batch(pid, spec, seed, scale, tag):
    """run every harness bin of the property and evaluate its cases"""
    all_cases, notes, problems = [], [], []
    for b in spec["harness"]:
        rc, cases, nts, err = run_harness(b["bin"], seed, min(scale * b.get("scale", 1), b.get("max_scale", 10**9)), b.get("env"),
                                          crate=os.path.join(ROOT, b.get("crate", "harness")))
        if rc != 0:
            problems.append("harness %s exited %d: %s" % (b["bin"], rc, err[-400:]))
        fams = b.get("families")
        known_fams = dict(bin_spec(spec, b["bin"])["checkers"])
        for f_, d_ in spec.get("family_types", {}).items(): known_fams.update(d_["checkers"])
        unknown = sorted({f for f, _ in cases if f not in known_fams and (fams is None or f in fams)
                          and f not in spec.get("ignore_families", [])})
        if unknown:
            problems.append("harness %s printed case families without a checker: %s" % (b["bin"], unknown))
        all_cases += [(f, t, b["bin"]) for f, t in cases if (fams is None or f in fams) and f in known_fams]
        notes += nts
    codes, errors = eval_cases(pid, spec, all_cases, tag) if all_cases else ([], [])
    problems += errors
    return all_cases, codes, notes, problems


def main():
    ap = argparse.ArgumentParser()
    ap.add_argument("pid")
    ap.add_argument("--tier", default=os.environ.get("VERIF_TIER", "quick"))
    ap.add_argument("--replay")
    a = ap.parse_args()
    pid = a.pid
    spec = PROPS_MOD.PROPS[pid]
    seed = int(os.environ.get("VERIF_SEED", "1"))
    tier = a.tier if a.tier in ("quick", "thorough") else "quick"
    t0 = time.time()
    if a.replay:
        return replay(pid, spec, a.replay)

    broken = []      # list of dicts: what no longer checks
    skeleton_changed = None
    with Lock("build.lock"):
        ok, out = regenerate()
        if not ok:
            broken.append({"kind": "translator", "message": out[-600:]})
        m_unp = re.search(r"\((\d+) unparsed\)", out)
        if ok and m_unp and int(m_unp.group(1)) > 0 and spec["run_files"][0] == "Run/CaseConn.v":
            # a packet impl the translator no longer understands.  For C09 the layout theorems then fail to
            # compile (the translator is C09's tie).  For the connection properties the tie is the
            # correspondence: the model falls back to the protocol table for that packet (Run/CaseConn.v mkinds)
            # and the correspondence is re-run at the search scale.
            skeleton_changed = "packet impls the translator cannot parse any more: " + out[-600:]
        # skeleton tie of the hand-transcribed functions
        if spec.get("skeleton"):
            rc_sk, out_sk = sh([sys.executable, os.path.join(ROOT, "tools", "skeleton.py"), "check", ",".join(spec["skeleton"])])
            if rc_sk != 0:
                # the hand-transcribed functions were edited.  That alone says nothing about the property (a
                # harmless rewrite changes the skeleton too): the correspondence is re-run at the search scale
                # below, and only a disagreement or a monitor failure found there counts.  VERIF_SKELETON=gate
                # restores the strict reading (an edited skeleton is itself a broken tie).
                skeleton_changed = (skeleton_changed + " ; " if skeleton_changed else "") + out_sk[-1200:]
                if os.environ.get("VERIF_SKELETON", "advisory") == "gate":
                    broken.append({"kind": "skeleton-tie", "message": out_sk[-1200:]})
        # model + checkers first (must build even when a proof is broken)
        okm, outm = coq_make([f + "o" for f in spec["run_files"]])
        if not okm:
            broken.append(dict(kind="model-build", **failing_item(outm)))
        # theorems
        okp, outp = props_compile(spec["props_file"])
        thms_all = count_theorems(spec["props_file"])
        if okp:
            thms_ok = list(thms_all)
        else:
            fi = failing_item(outp)
            broken.append(dict(kind="theorem", **fi))
            if fi["file"] == spec["props_file"]:
                m = re.search(r'line (\d+)', fi["message"])
                upto = int(m.group(1)) if m else 0
                # theorems whose Qed lies before the failing line
                thms_ok = count_theorems(spec["props_file"], upto)
                if fi["item"] in thms_ok: thms_ok.remove(fi["item"])
            else:
                thms_ok = []
        assumptions = parse_assumptions(outp) if okp else []
        axioms_used = sorted({n for closed, names in assumptions for n in names})
        not_allowed = [n for n in axioms_used if n not in spec.get("allowed_axioms", [])]
        if not_allowed:
            broken.append({"kind": "axioms", "message": "axioms outside the allow-list: %s" % not_allowed})
        if okp and len(assumptions) < len(thms_all):
            broken.append({"kind": "audit", "message": "Print Assumptions missing for some theorem (%d of %d)" % (len(assumptions), len(thms_all))})
        if okp and tier == "thorough":
            # independent re-check of the compiled theorems and everything they depend on
            modname = "Passage." + spec["props_file"][:-2].replace("/", ".")
            rc_chk, out_chk = sh(["timeout", "3000", "coqchk", "-silent", "-o", "-Q", COQ, "Passage", modname], cwd=COQ, timeout=3100)
            m_ax = re.search(r"\* Axioms:(.*?)\n\s*\n\* Constants/Inductives relying on type-in-type:(.*?)\n\s*\n\* Constants/Inductives relying on unsafe \(co\)fixpoints:(.*?)\n\s*\n\* Inductives whose positivity is assumed:(.*?)\n", out_chk, flags=re.S)
            coqchk_summary = {"exit": rc_chk, "axioms": m_ax.group(1).strip() if m_ax else "?", "type_in_type": m_ax.group(2).strip() if m_ax else "?",
                              "unsafe_fix": m_ax.group(3).strip() if m_ax else "?", "assumed_positivity": m_ax.group(4).strip() if m_ax else "?"}
            if rc_chk != 0 or not m_ax or any(coqchk_summary[k] != "<none>" for k in ("type_in_type", "unsafe_fix", "assumed_positivity")):
                broken.append({"kind": "coqchk", "message": str(coqchk_summary) + out_chk[-300:]})
            elif coqchk_summary["axioms"] != "<none>":
                names = re.findall(r"([A-Za-z_][\w.']*)\s*$|([A-Za-z_][\w.']+)", coqchk_summary["axioms"])
                flat = {a or b for a, b in names}
                # coqchk -o lists the axioms of EVERY library the module loads, whether or not a pinned theorem uses them
                # (that is what Print Assumptions decides, per theorem, against the property's own allow-list).  The four
                # axioms the standard library's Reals / Classical / FunctionalExtensionality declare come with Flocq
                # (Limiter/*, loaded by the listener models too); anything else is reported.
                lib_ok = ["Classical_Prop.classic", "FunctionalExtensionality.functional_extensionality_dep",
                          "ClassicalDedekindReals.sig_forall_dec", "ClassicalDedekindReals.sig_not_dec"]
                extra = [n for n in flat if not any(n.endswith(al.split(".")[-1]) for al in spec.get("allowed_axioms", []) + lib_ok)]
                coqchk_summary["library_axioms_not_used_by_the_pinned_theorems"] = sorted(
                    n for n in flat if not any(n.endswith(al.split(".")[-1]) for al in spec.get("allowed_axioms", [])))
                if extra:
                    broken.append({"kind": "coqchk", "message": "coqchk reports axioms outside the allow-list: %s" % sorted(extra)})
            spec["_coqchk"] = coqchk_summary
        bad = audit_sources()
        if bad:
            broken.append({"kind": "audit", "message": "; ".join(bad[:10])})
        # harness
        crates = {}
        for b in spec["harness"]:
            crates.setdefault(b.get("crate", "harness"), []).append(b["bin"])
        for crate, bins in crates.items():
            okh, outh = build_harness(bins, crate=os.path.join(ROOT, crate))
            if not okh:
                broken.append({"kind": "harness-build", "message": outh[-1200:]})
    harness_ok = not any(b["kind"] in ("harness-build", "model-build") for b in broken)

    scale = spec.get("quick_scale", 1) if tier == "quick" else spec.get("thorough_scale", 10)
    cases, codes, notes, problems = ([], [], [], [])
    if harness_ok:
        cases, codes, notes, problems = run_batch(pid, spec, seed, scale, "main")
        for pmsg in problems:
            broken.append({"kind": "correspondence-run", "message": pmsg})

    known = [k for k in load_known() if k["property"] == pid]
    res = classify(pid, spec, cases, codes, known)
    if res["corr"]:
        broken.append({"kind": "correspondence", "message": "%d case(s) where model and implementation differ" % len(res["corr"]),
                       "cases": [cases[i][1][:400] for i in res["corr"][:5]]})
    conn_skipped = [i for i in res["skipped"] if cases[i][2] == "conn"]
    if spec.get("max_skipped") is not None and len(conn_skipped) > spec["max_skipped"]:
        broken.append({"kind": "correspondence-run", "message": "%d connection case(s) fell outside the model (at most %d expected)" % (len(conn_skipped), spec["max_skipped"]),
                       "cases": [cases[i][1][:400] for i in conn_skipped[:3]]})
    if res["unevaluated"]:
        broken.append({"kind": "correspondence-run", "message": "%d case(s) not evaluated" % res["unevaluated"]})

    violations = []
    # (a) a monitor failure on the implementation outside every known class
    for i in res["viol"][:3]:
        path = write_replay(pid, seed, i, {"property": pid, "kind": "monitor-false-on-implementation", "seed": seed,
                                            "scale": scale, "bin": cases[i][2], "index": i, "family": cases[i][0],
                                            "case": cases[i][1], "code": codes[i]})
        violations.append((path, ""))
    # (b) something no longer checks: targeted search for a failing input
    search = None
    if (broken or skeleton_changed) and not violations and harness_ok:
        sscale = scale * spec.get("search_factor", 20)
        sc, scodes, _, sprob = run_batch(pid, spec, seed + 1000003, sscale, "search")
        sres = classify(pid, spec, sc, scodes, known)
        search = {"cases": len(sc), "found": len(sres["viol"]), "model_impl_disagreements": len(sres["corr"]),
                  "because": "broken obligation" if broken else "skeleton of a hand-transcribed function changed"}
        if not broken:
            if sres["corr"]:
                broken.append({"kind": "correspondence", "message": "%d case(s) of the escalated run where model and implementation differ (skeleton changed: %s)" % (len(sres["corr"]), skeleton_changed[:300]),
                               "cases": [sc[i][1][:400] for i in sres["corr"][:5]]})
            if sres["unevaluated"] or sprob:
                broken.append({"kind": "correspondence-run", "message": "escalated run incomplete: %s" % (sprob[:2] or sres["unevaluated"])})
        for i in sres["viol"][:1]:
            path = write_replay(pid, seed + 1000003, i, {"property": pid, "kind": "monitor-false-on-implementation (found by the search after a proof obligation broke)",
                                                          "seed": seed + 1000003, "scale": sscale, "bin": sc[i][2], "index": i,
                                                          "family": sc[i][0], "case": sc[i][1], "code": scodes[i], "broken": broken})
            violations.append((path, ""))
    if broken and not violations:
        path = write_replay(pid, seed, 0, {"property": pid, "kind": "no-longer-shown", "broken": broken, "search": search})
        violations.append((path, " no-failing-input-found"))

    # known findings: print one line per listed finding that still reproduces
    kf_lines = PROPS_MOD.known_lines(pid, spec, known, cases, codes, res, ROOT)

    wall = time.time() - t0
    evidence(pid, spec, tier, seed, wall, thms_all, thms_ok, broken, cases, codes, res, notes, axioms_used, violations, kf_lines, search, skeleton_changed)
    for l in kf_lines: print(l)
    for path, suffix in violations:
        print("VIOLATION property=%s replay=%s%s" % (pid, path, suffix))
    if violations:
        for b in broken[:6]:
            print("  broken: %s %s %s" % (b.get("kind"), b.get("file") or "", (b.get("item") or b.get("message", ""))[:300].replace("\n", " ")))
        sys.exit(1)
    print("OK property=%s tier=%s theorems=%d/%d cases=%d skipped=%d known=%d wall=%.1fs" % (
        pid, tier, len(thms_ok), len(thms_all), len(cases), len(res["skipped"]), len(res["known"]), wall))
    sys.exit(0)


def classify(pid, spec, cases, codes, known):
    viol, corr, skipped, knownhits = [], [], [], []
    uneval = 0
    for i, c in enumerate(codes):
        if c is None:
            uneval += 1; continue
        if c == 4:
            skipped.append(i); continue
        if c >= 16:
            # model and implementation differ inside a known class decided by the checker itself
            k = PROPS_MOD.match_known_class(pid, known, c // 16)
            if k: knownhits.append((i, k))
            else: corr.append(i)
            c = c % 16
        if c & 2:
            k = PROPS_MOD.match_known(pid, known, cases[i])
            if k: knownhits.append((i, k))
            else: viol.append(i)
        if c & 1:
            k = PROPS_MOD.match_known(pid, known, cases[i])
            if not k: corr.append(i)
    return {"viol": viol, "corr": corr, "skipped": skipped, "known": knownhits, "unevaluated": uneval}


def evidence(pid, spec, tier, seed, wall, thms_all, thms_ok, broken, cases, codes, res, notes, axioms, violations, kf_lines, search, skeleton_changed=None):
    os.makedirs(os.path.join(ROOT, "evidence"), exist_ok=True)
    ties = spec.get("ties", [])
    tie_broken = any(b["kind"] in ("translator",) for b in broken)
    obligations = len(thms_all) + len(ties)
    discharged = len(thms_ok) + (0 if tie_broken else len(ties))
    fam_hist = {}
    for f, _, _ in cases: fam_hist[f] = fam_hist.get(f, 0) + 1
    nontrivial = set()
    for i, (f, t, _) in enumerate(cases):
        if codes[i] is not None and codes[i] != 4 and PROPS_MOD.nontrivial(pid, f, t):
            nontrivial.add(hashlib.sha1(t.encode()).hexdigest())
    samples = []
    seen = set()
    for f, t, _ in cases:
        if f not in seen:
            seen.add(f); samples.append({"family": f, "case": t[:600]})
    samples += [{"obligation": n} for n in thms_all[:40]]
    ev = {
        "property_id": pid, "tier": tier, "seed": seed, "level": "proof",
        "coverage": {
            "obligations": obligations, "discharged": discharged,
            "checker_cmd": "cd /verif/coq && make -j16 %so  (coqc 8.16.1, full .vo build) ; correspondence: coqc -Q /verif/coq Passage work/%s/main/cases_*.v" % (spec["props_file"], pid),
            "trusted_base": spec.get("trusted_base", []) + ["Coq 8.16.1 kernel incl. vm_compute (no native_compute, no extraction)",
                                                              "axioms under Print Assumptions: %s" % (axioms or "none (Closed under the global context)")],
            "theorems": thms_all, "theorems_checked": thms_ok, "translator_ties": ties,
            "evaluations": len(cases),
            "distinct_nontrivial": len(nontrivial),
            "rule": spec.get("rule", ""),
            "samples": samples or [{"obligation": n} for n in thms_all],
            "traces_validated_against_impl": sum(1 for c in codes if c is not None and c != 4),
            "family_histogram": fam_hist, "skipped_outside_model": len(res["skipped"]),
            "distribution_notes": notes[:50],
            "model_impl_disagreements": len(res["corr"]), "monitor_failures": len(res["viol"]),
            "known_finding_hits": len(res["known"]), "known_finding_lines": kf_lines,
            "broken": broken, "failing_input_search": search, "skeleton_changed": skeleton_changed, "coqchk": spec.get("_coqchk"),
            "explanation": spec.get("explanation", ""),
        },
        "assumptions": spec.get("assumptions", []),
        "wall_s": round(wall, 2),
        "violations": len(violations),
    }
    json.dump(ev, open(os.path.join(ROOT, "evidence", pid + ".json"), "w"), indent=1)


def replay(pid, spec, path):
    """re-run the recorded case on the implementation (same seed) and re-evaluate model+monitor"""
    if not os.path.isabs(path): path = os.path.join(ROOT, path)
    r = json.load(open(path))
    print(json.dumps({k: r[k] for k in r if k != "case"}, indent=1)[:3000])
    if "case" not in r:
        print("replay names what no longer checks; nothing to execute"); return 0
    with Lock("build.lock"):
        regenerate(); coq_make([f + "o" for f in spec["run_files"]])
        crates = {}
        for b in spec["harness"]:
            crates.setdefault(b.get("crate", "harness"), []).append(b["bin"])
        for crate, bins in crates.items():
            build_harness(bins, crate=os.path.join(ROOT, crate))
    # the recorded index counts the cases of the whole batch (every harness binary of the property, in order, with the
    # families and the environment of the registered run): the batch is generated again from the same seed
    cases = []
    for b in spec["harness"]:
        rc, cs, _, _ = run_harness(b["bin"], r["seed"], min(r["scale"] * b.get("scale", 1), b.get("max_scale", 10**9)), b.get("env"),
                                   crate=os.path.join(ROOT, b.get("crate", "harness")))
        fams = b.get("families")
        known_fams = dict(bin_spec(spec, b["bin"])["checkers"])
        for f_, d_ in spec.get("family_types", {}).items(): known_fams.update(d_["checkers"])
        cases += [(f, t, b["bin"]) for f, t in cs if (fams is None or f in fams) and f in known_fams]
    now = cases[r["index"]] if r["index"] < len(cases) else None
    if now and (now[0] != r.get("family", now[0]) or now[2] != r["bin"]):
        print("the case at the recorded index is of another family (%s/%s): the generators changed since the replay was written" % (now[2], now[0]))
        now = None
    print("recorded case : %s" % r["case"][:2000])
    print("re-run on impl: %s" % (now[1][:2000] if now else "<index out of range>"))
    if now:
        codes, errs = eval_cases(pid, spec, [(now[0], now[1], now[2])], "replay")
        print("model/monitor code now: %s (0 ok, +1 model!=impl, +2 monitor false) %s" % (codes[0], errs))
        if codes[0] and codes[0] & 2:
            print("VIOLATION property=%s replay=%s" % (pid, os.path.relpath(path, ROOT))); return 1
    return 0


if __name__ == "__main__":
    sys.exit(main())
