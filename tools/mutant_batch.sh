#!/bin/bash
# mutant_batch.sh <PID> [<check ids>...] : lab-try every /tmp/mutants/<PID>/mutant*/patch.diff against the given checks (default: PID)
P=$1; shift; CHECKS=${@:-$P}
for d in /tmp/mutants/$P/mutant*/; do
  for c in $CHECKS; do
    bash /verif/tools/mutant_lab.sh try $c $d/patch.diff 2>&1 | tail -1 | sed "s#^RESULT#RESULT[$P/$(basename $d)]#"
    cp /tmp/mlab${LAB:-}_$c.out $d/lab_$c.out 2>/dev/null
  done
done
