#!/usr/bin/env python3
"""Skeleton tie: the ordered sequence of protocol-relevant primitives in the functions the
hand-written models transcribe (Connection::listen / receive_packet / keep_alive / send_packet /
handle_keep_alive / apply_encryption, Listener::listen / handle, RateLimiter::enqueue,
cookie::sign / verify, CipherStream::poll_write / poll_read).  The models in coq/Conn/Prog.v,
coq/Conn/Sem1.v, coq/Listener/Machine.v, coq/Limiter/*.v, coq/Crypto/*.v were written against the
skeleton stored in tools/skeleton.expected.json; `skeleton.py check` compares the current
sources with it.  A difference means the transcription may no longer describe the code: the
driver treats it as a broken tie (and searches for a failing input).

  skeleton.py show    print the current skeleton
  skeleton.py update  rewrite tools/skeleton.expected.json (only after re-reading the models!)
  skeleton.py check   exit 1 and print the differing functions if the skeleton changed
"""
import re, sys, os, json

REPO = os.environ.get("PASSAGE_REPO", "/repo")
HERE = os.path.dirname(os.path.abspath(__file__))
EXPECTED = os.path.join(HERE, "skeleton.expected.json")

TARGETS = {
    "passage-protocol/src/connection.rs": ["peek_varint", "inbound_frame", "fill_inbound", "receive_packet", "send_packet", "flush_unsent", "disconnect_missed_keep_alive", "check_keep_alive", "handle_keep_alive", "keep_alive", "apply_encryption", "listen"],
    "passage-protocol/src/listener.rs": ["listen", "handle"],
    "passage-protocol/src/rate_limiter.rs": ["enqueue"],
    "passage-protocol/src/cookie.rs": ["sign", "verify"],
    "passage-protocol/src/crypto/stream.rs": ["poll_write", "poll_read", "create_ciphers"],
    "passage-protocol/src/crypto/mod.rs": ["verify_token", "decrypt", "generate_token", "generate_keep_alive"],
}

# tokens that matter: calls, control flow, comparisons, literals; everything else (comments,
# tracing, metrics, whitespace, debug strings) is dropped
DROP_LINE = re.compile(r"^\s*(debug!|info!|warn!|error!|trace!|metrics::|tracing::Span|#\[|//)")
KEEP = re.compile(r"""
    match_packet!\s*\{[^,]*,\s*(?:keep_alive,)? | =>\s*(?:break|continue|return)? | \bbreak\b(?:\s*'\w+)? | \bcontinue\b | \breturn\b
  | \bif\b | \belse\b | \bloop\b | \bfor\b | \bwhile\b | \bmatch\b | \blet\s+Some\b | \blet\s+Ok\b
  | \.\s*(?:await|status|authenticate|discover|filter|select|localize|send_packet|receive_packet|read_varint|read_to_end|take|write_all|write_varint
          |enqueue|shutdown|spawn|cancelled|accept|close|wait|tick|keep_alive|handle_keep_alive|apply_encryption|set_encryption|poll_write|poll_read
          |encrypt_block_mut|decrypt_block_mut|verify_slice|update|finalize|saturating_add|saturating_duration_since|as_secs_f32|retain|entry|or_insert
          |is_none|is_some|ip|port|clone|decode|lock|min|chunks_mut|filled_mut|extend_from_slice|to_vec|is_ready)\s*\(
  | \b(?:sign|verify|serde_json::\w+|crypto::\w+|SystemTime::now|Uuid::new_v4|timeout_at|timeout|create_ciphers|ProxiedStream::\w+|Error::\w+|Err|Ok|Some|None|State::\w+|Poll::\w+)\b
  | [<>!=]=? | \|\| | && | \+ | - | \* | / | \d[\d_]*(?:\.\d+)?(?:f32|u64|u8|i32)? | \b(?:should_authenticate|keep_alive_id|max_packet_length|auth_cookie_expiry|auth_secret|client_locale|client_address|length|bucket_\w+|last_cleanup|limit|duration)\b
  | [A-Za-z_:]+Packet\b
""", re.X)


def fn_body(src, name):
    m = re.search(r"\bfn\s+" + name + r"\s*(?:<[^>]*>)?\s*\(", src)
    if not m: return None
    i = src.index("{", m.end())
    # skip a `where` clause brace-free; the first '{' after the signature opens the body
    d = 0
    for j in range(i, len(src)):
        if src[j] == "{": d += 1
        elif src[j] == "}":
            d -= 1
            if d == 0: return src[i:j + 1]
    return None


def skeleton_of(body):
    body = re.sub(r"/\*.*?\*/", "", body, flags=re.S)
    lines = [l for l in body.split("\n") if not DROP_LINE.match(l)]
    text = re.sub(r'"[^"\n]*"', '""', "\n".join(lines))
    text = re.sub(r"//[^\n]*", "", text)
    # multi-line tracing / metrics macros
    text = re.sub(r"\b(debug|info|warn|error|trace)!\s*\((?:[^()]|\([^()]*\))*\)\s*;", "", text)
    text = re.sub(r"\.instrument\((?:[^()]|\((?:[^()]|\([^()]*\))*\))*\)", "", text)
    return [re.sub(r"\s+", " ", t.group(0)).strip() for t in KEEP.finditer(text)]


def current():
    out = {}
    for rel, fns in TARGETS.items():
        try:
            src = open(os.path.join(REPO, rel)).read()
        except OSError:
            out[rel] = None; continue
        for fn in fns:
            b = fn_body(src, fn)
            out["%s::%s" % (rel, fn)] = skeleton_of(b) if b is not None else None
    return out


def main():
    cmd = sys.argv[1] if len(sys.argv) > 1 else "check"
    cur = current()
    if cmd == "show":
        print(json.dumps(cur, indent=1)); return 0
    if cmd == "update":
        json.dump(cur, open(EXPECTED, "w"), indent=1); print("updated", EXPECTED); return 0
    exp = json.load(open(EXPECTED))
    diff = [k for k in sorted(set(exp) | set(cur)) if exp.get(k) != cur.get(k)]
    only = sys.argv[2].split(",") if len(sys.argv) > 2 else None
    if only: diff = [k for k in diff if any(k.startswith(o) for o in only)]
    if diff:
        for k in diff:
            e, c = exp.get(k) or [], cur.get(k) or []
            n = next((i for i in range(min(len(e), len(c))) if e[i] != c[i]), min(len(e), len(c)))
            print("SKELETON-DIFF %s at token %d: expected %s, found %s" % (k, n, e[n:n + 6], c[n:n + 6]))
        return 1
    print("skeleton unchanged (%d functions)" % len(cur)); return 0


if __name__ == "__main__":
    sys.exit(main())
