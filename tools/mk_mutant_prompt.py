#!/usr/bin/env python3
"""mk_mutant_prompt.py <PID> <N> [suffix] : create a scratch worktree /tmp/wt-<PID><suffix> of /repo HEAD and print the
sub-agent prompt (only the property text; nothing from /verif)."""
import sys, json, subprocess, os
pid, n = sys.argv[1], sys.argv[2]
suf = sys.argv[3] if len(sys.argv) > 3 else ""
hint = sys.argv[4] if len(sys.argv) > 4 else ""
props = {json.loads(l)["id"]: json.loads(l) for l in open("/verif/properties.jsonl")}
p = props[pid]
wt = "/tmp/wt-%s%s" % (pid, suf)
out = "/tmp/mutants/%s%s" % (pid, suf)
subprocess.run(["git", "-C", "/repo", "worktree", "remove", "--force", wt], capture_output=True)
subprocess.run(["git", "-C", "/repo", "worktree", "prune"])
subprocess.run(["git", "-C", "/repo", "worktree", "add", "--detach", wt, "HEAD"], capture_output=True, check=True)
os.makedirs(out, exist_ok=True)
t = open("/verif/tools/mutant_prompt.txt").read()
q = p.get("quantifier") or {}; quant = q.get("text") if isinstance(q, dict) else q
t = (t.replace("@WT@", wt).replace("@PID@", pid).replace("@TITLE@", p.get("title", "")).replace("@STATEMENT@", p.get("statement", p.get("description", "")))
      .replace("@QUANT@", str(quant)).replace("@N@", n).replace("@OUT@", out))
if hint: t += "\n\nADDITIONAL DIRECTION: " + hint
print(t)
