#!/bin/bash
# try_mutant.sh <check id> <patch.diff> : apply a seeded change to /repo, run the check, undo it
PID=$1; PATCH=$2
cd /repo && git apply $PATCH || { echo "patch does not apply"; exit 2; }
cd /verif && ./check $PID > /tmp/try_$PID.out 2>&1; RC=$?
cd /repo && git checkout -- . && git clean -fdq passage-packets passage-protocol passage-adapters src 2>/dev/null
echo "exit=$RC $(grep -c VIOLATION /tmp/try_$PID.out) violation line(s): $(grep VIOLATION /tmp/try_$PID.out | head -2 | tr '\n' ' ')"
grep "broken:" /tmp/try_$PID.out | head -3
