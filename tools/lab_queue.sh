#!/bin/bash
# lab_queue.sh <queue file of "PID dir" lines> : lab-try each (LAB env selects the lab); results appended to <queue>.log
Q=$1
while read P D; do
  [ -z "$P" ] && continue
  R=$(bash /verif/tools/mutant_lab.sh try $P $D/patch.diff 2>&1 | tail -1)
  cp /tmp/mlab${LAB:-}_$P.out $D/lab_$P.out 2>/dev/null
  echo "[$(basename $(dirname $D))/$(basename $D)] $R" >> $Q.log
done < $Q
