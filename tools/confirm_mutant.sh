#!/bin/bash
# confirm_mutant.sh <PID> <dir-with-patch.diff-demo.diff-meta.json> : checks in a scratch worktree that the change
# compiles, passes the existing suite, and that its demonstration fails with it and passes without it.
PID=$1; D=$2; WT=/tmp/cm-$PID-$$
export CARGO_NET_OFFLINE=true
git -C /repo worktree add --detach $WT HEAD >/dev/null 2>&1 || exit 2
cp -r /repo/target $WT/target
cd $WT
DEMO_CMD=$(python3 - "$D/meta.json" "$WT" <<'PY'
import json, sys, re
cmd = json.load(open(sys.argv[1]))["commands"]["demo"]
cmd = re.sub(r"/tmp/wt-[A-Za-z0-9]*", sys.argv[2], cmd)
m = re.search(r"((?:CARGO_NET_OFFLINE=true )?cargo test[^#(\n]*)", cmd)
print("cd %s && %s" % (sys.argv[2], m.group(1).strip() if m else "false"))
PY
)
echo "demo cmd: $DEMO_CMD"
git apply $D/patch.diff || { echo "RESULT patch-does-not-apply"; cd /; git -C /repo worktree remove --force $WT; exit 1; }
T=$(cargo test --workspace --no-fail-fast --offline 2>&1 | grep -E "^test result" | awk '{p+=$4; f+=$6} END {print p" passed "f" failed"}')
echo "suite with mutant: $T"
git apply $D/demo.diff
(eval "$DEMO_CMD") > /tmp/cm-$PID-$$.with.log 2>&1; W=$?
git apply -R $D/patch.diff
(eval "$DEMO_CMD") > /tmp/cm-$PID-$$.without.log 2>&1; WO=$?
echo "RESULT suite=[$T] demo_with_mutant_exit=$W demo_without_mutant_exit=$WO"
cd /; git -C /repo worktree remove --force $WT
