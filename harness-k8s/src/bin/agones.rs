//! C20 correspondence driver for passage-adapters-agones.
//!
//! A hand-written HTTP/1.1 mock of the Kubernetes API (list + watch of
//! agones.dev/v1 GameServers) on loopback plays a seeded script; the REAL
//! `AgonesDiscoveryAdapter` (kube client, kube watcher, backoff) talks to it.  After each
//! scripted step the harness waits until the adapter has digested it and records
//! `discover()`.  A second, independent `kube::runtime::watcher` stream on the same mock
//! (other URL path, same content) records the kube-level `watcher::Event`s of each step.
//!
//! Time: every case runs on its own current-thread tokio runtime with a PAUSED clock; the
//! clock auto-advances when all tasks are idle, so kube's 0.8-1.6 s backoff after an error
//! costs no real time.  Loopback I/O is real.
use futures_util::StreamExt;
use kube::runtime::{WatchStreamExt, watcher};
use kube::{Api, Client};
use passage_adapters::discovery::DiscoveryAdapter;
use passage_adapters_agones::{AgonesDiscoveryAdapter, GameServer};
use serde_json::{Map, Value, json};
use std::collections::{BTreeMap, VecDeque};
use std::sync::{Arc, Mutex};
use std::time::Duration;
use tokio::io::{AsyncReadExt, AsyncWriteExt};
use tokio::net::{TcpListener, TcpStream};
use tokio::sync::mpsc;
use vh::*;

// ------------------------------------------------------------------ the mock API server
enum Cmd {
    Line(String),
    EndClean,
    Abort,
}
struct Live {
    id: u64,
    client: usize,
    tx: mpsc::UnboundedSender<Cmd>,
}
#[derive(Clone)]
enum Change {
    Set(Value),
    Del(String),
}

#[derive(Default)]
struct Mock {
    rv: u64,
    store: BTreeMap<String, Value>,
    /// (resourceVersion, watch line) of every ADDED/MODIFIED/DELETED since the start
    log: Vec<(u64, String)>,
    /// a watch resumed from a resourceVersion below this is answered with 410 Gone
    compacted: u64,
    live: Vec<Live>,
    next_id: u64,
    /// per client: true = answer the next list request with a 500
    list_plan: [VecDeque<bool>; 2],
    /// changes that happen at the moment the adapter's (client 0) next list request is answered with a 500:
    /// a paginated re-list aborted half way, after which the world has moved on
    late: Vec<Change>,
    /// page size of list answers (0 = everything in one page)
    page: usize,
    tokens: BTreeMap<String, (Vec<Value>, u64)>,
    lists: [u64; 2],
    list_failures: [u64; 2],
    pages: u64,
    watches: [u64; 2],
    gone_on_resume: u64,
}

fn watch_line(kind: &str, obj: &Value) -> String {
    json!({"type": kind, "object": obj}).to_string()
}
fn gone_line() -> String {
    json!({"type": "ERROR", "object": {"kind": "Status", "apiVersion": "v1", "metadata": {}, "status": "Failure",
           "message": "too old resource version", "reason": "Expired", "code": 410}})
    .to_string()
}

impl Mock {
    /// returns the event type that the change amounts to (None: deleting what is not there)
    fn apply(&mut self, ch: &Change, push: bool) -> Option<(&'static str, Value)> {
        let (kind, obj) = match ch {
            Change::Set(o) => {
                let name = o["metadata"]["name"].as_str().unwrap().to_string();
                let kind = if self.store.contains_key(&name) { "MODIFIED" } else { "ADDED" };
                self.rv += 1;
                let mut o = o.clone();
                o["metadata"]["resourceVersion"] = json!(self.rv.to_string());
                self.store.insert(name, o.clone());
                (kind, o)
            }
            Change::Del(name) => {
                let mut o = self.store.remove(name)?;
                self.rv += 1;
                o["metadata"]["resourceVersion"] = json!(self.rv.to_string());
                ("DELETED", o)
            }
        };
        let line = watch_line(kind, &obj);
        self.log.push((self.rv, line.clone()));
        if push {
            self.live.retain(|l| l.tx.send(Cmd::Line(line.clone())).is_ok());
        }
        Some((kind, obj))
    }
    fn bookmark(&mut self) {
        self.rv += 2; // other resources moved on
        let line = watch_line("BOOKMARK", &json!({"apiVersion": "agones.dev/v1", "kind": "GameServer",
            "metadata": {"resourceVersion": self.rv.to_string()}}));
        self.live.retain(|l| l.tx.send(Cmd::Line(line.clone())).is_ok());
    }
    fn compact(&mut self) {
        self.rv += 1;
        self.compacted = self.rv;
    }
    fn list(&mut self, client: usize, token: Option<&str>) -> (u16, String) {
        self.lists[client] += 1;
        if self.list_plan[client].pop_front() == Some(true) {
            self.list_failures[client] += 1;
            if client == 0 { let late: Vec<Change> = self.late.drain(..).collect(); for c in &late { self.apply(c, false); } }
            return (500, json!({"kind": "Status", "apiVersion": "v1", "metadata": {}, "status": "Failure",
                "message": "injected failure", "reason": "InternalError", "code": 500}).to_string());
        }
        let (mut items, rv) = match token.and_then(|t| self.tokens.remove(t)) {
            Some(rest) => rest,
            None => (self.store.values().cloned().collect(), self.rv),
        };
        let mut meta = json!({"resourceVersion": rv.to_string()});
        if self.page > 0 && items.len() > self.page {
            let rest = items.split_off(self.page);
            self.next_id += 1;
            let tok = format!("tok{}", self.next_id);
            self.tokens.insert(tok.clone(), (rest, rv));
            meta["continue"] = json!(tok);
            self.pages += 1;
        }
        (200, json!({"apiVersion": "agones.dev/v1", "kind": "GameServerList", "metadata": meta, "items": items}).to_string())
    }
    /// lines to send at once; Some(id) if the watch is live afterwards
    fn start_watch(&mut self, client: usize, from: u64, tx: mpsc::UnboundedSender<Cmd>) -> (Vec<String>, Option<u64>) {
        self.watches[client] += 1;
        if from < self.compacted {
            self.gone_on_resume += 1;
            return (vec![gone_line()], None);
        }
        let lines = self.log.iter().filter(|(rv, _)| *rv > from).map(|(_, l)| l.clone()).collect();
        self.next_id += 1;
        self.live.push(Live { id: self.next_id, client, tx });
        (lines, Some(self.next_id))
    }
    fn is_live(&self, client: usize) -> bool {
        self.live.iter().any(|l| l.client == client && !l.tx.is_closed())
    }
}

fn chunk(line: &str) -> Vec<u8> {
    let body = format!("{}\n", line);
    format!("{:x}\r\n{}\r\n", body.len(), body).into_bytes()
}

fn query_param<'a>(target: &'a str, key: &str) -> Option<&'a str> {
    let q = target.split_once('?')?.1;
    q.split('&').find_map(|kv| kv.split_once('=').filter(|(k, _)| *k == key).map(|(_, v)| v))
}

/// one HTTP/1.1 connection (keep-alive): any number of list requests and watch requests
async fn serve_conn(mut sock: TcpStream, mock: Arc<Mutex<Mock>>) {
    let mut buf: Vec<u8> = Vec::new();
    loop {
        // read one request head (GET: no body)
        let head_end = loop {
            if let Some(p) = buf.windows(4).position(|w| w == b"\r\n\r\n") { break p + 4; }
            let mut tmp = [0u8; 4096];
            match sock.read(&mut tmp).await {
                Ok(0) | Err(_) => return,
                Ok(n) => buf.extend_from_slice(&tmp[..n]),
            }
        };
        let head = String::from_utf8_lossy(&buf[..head_end]).to_string();
        buf.drain(..head_end);
        let target = head.split_whitespace().nth(1).unwrap_or("").to_string();
        let path = target.split('?').next().unwrap_or("");
        let client = match path {
            "/apis/agones.dev/v1/gameservers" => 0,
            "/apis/agones.dev/v1/namespaces/obs/gameservers" => 1,
            _ => {
                let _ = sock.write_all(b"HTTP/1.1 404 Not Found\r\nContent-Length: 0\r\n\r\n").await;
                continue;
            }
        };
        if query_param(&target, "watch") != Some("true") {
            let (code, body) = mock.lock().unwrap().list(client, query_param(&target, "continue"));
            let resp = format!("HTTP/1.1 {} X\r\nContent-Type: application/json\r\nContent-Length: {}\r\n\r\n{}", code, body.len(), body);
            if sock.write_all(resp.as_bytes()).await.is_err() { return; }
            continue;
        }
        let from: u64 = query_param(&target, "resourceVersion").and_then(|v| v.parse().ok()).unwrap_or(0);
        let (tx, mut rx) = mpsc::unbounded_channel();
        let (lines, id) = mock.lock().unwrap().start_watch(client, from, tx);
        let mut out = b"HTTP/1.1 200 OK\r\nContent-Type: application/json\r\nTransfer-Encoding: chunked\r\n\r\n".to_vec();
        for l in &lines { out.extend_from_slice(&chunk(l)); }
        if sock.write_all(&out).await.is_err() { return; }
        let unregister = |mock: &Arc<Mutex<Mock>>| {
            if let Some(id) = id { mock.lock().unwrap().live.retain(|l| l.id != id); }
        };
        loop {
            let mut tmp = [0u8; 1024];
            tokio::select! {
                cmd = rx.recv() => match cmd {
                    Some(Cmd::Line(l)) => {
                        if sock.write_all(&chunk(&l)).await.is_err() { unregister(&mock); return; }
                    }
                    Some(Cmd::EndClean) | None => {
                        unregister(&mock);
                        if sock.write_all(b"0\r\n\r\n").await.is_err() { return; }
                        break;
                    }
                    Some(Cmd::Abort) => {
                        // promise a 4096-byte chunk, deliver half a line, close
                        unregister(&mock);
                        let _ = sock.write_all(b"1000\r\n{\"type\":\"MODIFIED\",\"object\":{\"apiVersion\":\"agones.dev/v1\",\"ki").await;
                        let _ = sock.shutdown().await;
                        return;
                    }
                },
                r = sock.read(&mut tmp) => match r {
                    Ok(0) | Err(_) => { unregister(&mock); return; }   // the client hung up
                    Ok(n) => buf.extend_from_slice(&tmp[..n]),
                },
            }
        }
    }
}

// ------------------------------------------------------------------ scenarios
#[derive(Clone)]
enum Step {
    Ch(Change),
    Bookmark,
    /// the watch connections end (cleanly or torn) after `missed` changes were not delivered;
    /// with `compact` the resumed watch is answered by 410 Gone
    Drop { clean: bool, missed: Vec<Change>, compact: bool },
    /// 410 Gone on the live watch after `missed` changes; the next `fails` list requests of each
    /// client fail with 500; list answers come in pages of `page` items (0 = one page)
    Gone { missed: Vec<Change>, fails: u32, page: usize, abort_mid: bool },
}
struct Scenario {
    family: &'static str,
    initial: Vec<Value>,
    steps: Vec<Step>,
}

const STATES: [&str; 5] = ["Scheduled", "Ready", "Allocated", "Shutdown", "Unhealthy"];
const KEYS: [&str; 5] = ["players", "rooms", "tags", "tier", "region"];
const GOOD_V6: [&str; 6] = ["2001:db8::1", "::1", "::ffff:10.0.0.7", "fe80::1:2:3:4", "2001:DB8:0:0:1:0:0:1", "::"];
const BAD_ADDR: [&str; 9] = ["not-an-ip", "", "10.0.0.256", "gs.example.org", "1.2.3", "[::1]", "10.0.0.1:80", " 10.0.0.1", "01.2.3.4"];
const VALUES: [&str; 8] = ["a", "b", "", "x,y", "\u{fc}ber", "Ready", "7", "eu-west"];

#[derive(Clone, Copy, PartialEq)]
enum Defect { None, BadAddr, NoPorts, NoStatus }

struct Knobs {
    state_key: bool, // allow the key "state" among counters/lists/labels/annotations
}

fn gen_key(r: &mut Rng, k: &Knobs) -> String {
    if k.state_key && r.chance(1, 3) { "state".into() } else { (*r.pick(&KEYS)).to_string() }
}

fn gen_obj(r: &mut Rng, name: &str, state: &str, defect: Defect, k: &Knobs) -> Value {
    let mut labels = Map::new();
    let mut annots = Map::new();
    for _ in 0..r.below(3) { labels.insert(gen_key(r, k), json!(*r.pick(&VALUES))); }
    for _ in 0..r.below(3) { annots.insert(gen_key(r, k), json!(*r.pick(&VALUES))); }
    let mut meta = json!({"name": name, "namespace": "default", "uid": format!("uid-{}", name)});
    if !labels.is_empty() || r.chance(1, 2) { meta["labels"] = Value::Object(labels); }
    if !annots.is_empty() || r.chance(1, 2) { meta["annotations"] = Value::Object(annots); }
    let mut obj = json!({"apiVersion": "agones.dev/v1", "kind": "GameServer", "metadata": meta, "spec": {"container": "mc"}});
    if defect == Defect::NoStatus { return obj; }
    let address = if defect == Defect::BadAddr { (*r.pick(&BAD_ADDR)).to_string() }
        else if r.chance(1, 4) { (*r.pick(&GOOD_V6)).to_string() }
        else { format!("10.{}.{}.{}", r.below(256), r.below(256), r.below(256)) };
    let mut status = json!({"address": address, "state": state, "nodeName": "node-1"});
    if defect == Defect::NoPorts {
        if r.chance(1, 2) { status["ports"] = json!([]); }
    } else {
        let ports: Vec<Value> = (0..1 + r.below(3)).map(|i| json!({"name": format!("p{}", i), "port": r.boundary(0, 65535) as u16})).collect();
        status["ports"] = json!(ports);
    }
    match r.below(4) {
        0 => {}
        1 => { status["counters"] = Value::Null; }
        _ => {
            let mut m = Map::new();
            for _ in 0..r.below(3) {
                let c = match r.below(4) {
                    0 => json!({"capacity": 10}),
                    1 => json!({"count": null, "capacity": 10}),
                    _ => json!({"count": r.boundary(0, u32::MAX as i128) as u32, "capacity": 100}),
                };
                m.insert(gen_key(r, k), c);
            }
            status["counters"] = Value::Object(m);
        }
    }
    match r.below(4) {
        0 => {}
        1 => { status["lists"] = Value::Null; }
        _ => {
            let mut m = Map::new();
            for _ in 0..r.below(3) {
                let l = if r.chance(1, 5) { json!({"capacity": 3}) } else {
                    let vals: Vec<&str> = (0..r.below(4)).map(|_| *r.pick(&VALUES)).collect();
                    json!({"capacity": 8, "values": vals})
                };
                m.insert(gen_key(r, k), l);
            }
            status["lists"] = Value::Object(m);
        }
    }
    obj["status"] = status;
    obj
}

/// generator state: what the API server currently holds (name -> offered by a correct adapter?)
struct World {
    names: Vec<String>,
    present: BTreeMap<String, bool>,
}
struct Mix { delete_ready: bool, unconv: bool, knobs: Knobs }

impl World {
    fn gen_set(&mut self, r: &mut Rng, m: &Mix) -> Change {
        let name = r.pick(&self.names).clone();
        let offered = self.present.get(&name).copied().unwrap_or(false);
        let defect = if m.unconv && r.chance(if offered { 2 } else { 1 }, 5) { *r.pick(&[Defect::BadAddr, Defect::NoPorts, Defect::NoStatus]) } else { Defect::None };
        // ready states more often than the others, so that there is something to lose
        let state = if r.chance(1, 2) { *r.pick(&["Ready", "Allocated"]) } else { *r.pick(&STATES) };
        let obj = gen_obj(r, &name, state, defect, &m.knobs);
        self.present.insert(name, defect == Defect::None && (state == "Ready" || state == "Allocated"));
        Change::Set(obj)
    }
    /// a deletion; in the plain mix only of servers that are not offered (the Agones life
    /// cycle Ready -> Shutdown -> deleted)
    fn gen_del(&mut self, r: &mut Rng, m: &Mix) -> Option<Change> {
        let cands: Vec<String> = self.present.iter().filter(|(_, off)| m.delete_ready || !**off).map(|(n, _)| n.clone()).collect();
        // prefer the offered ones when allowed
        let pref: Vec<String> = self.present.iter().filter(|(_, off)| m.delete_ready && **off).map(|(n, _)| n.clone()).collect();
        let pool = if !pref.is_empty() && r.chance(3, 4) { pref } else { cands };
        if pool.is_empty() { return None; }
        let name = r.pick(&pool).clone();
        self.present.remove(&name);
        Some(Change::Del(name))
    }
    fn gen_change(&mut self, r: &mut Rng, m: &Mix) -> Change {
        if r.chance(1, 4) { if let Some(d) = self.gen_del(r, m) { return d; } }
        self.gen_set(r, m)
    }
    fn gen_missed(&mut self, r: &mut Rng, m: &Mix) -> Vec<Change> {
        (0..r.below(4)).map(|_| self.gen_change(r, m)).collect()
    }
}

fn gen_scenario(r: &mut Rng, family: &'static str) -> Scenario {
    let m = Mix {
        delete_ready: matches!(family, "DELETE" | "DROP" | "GONE" | "MIX"),
        unconv: matches!(family, "UNCONV" | "MIX"),
        knobs: Knobs { state_key: matches!(family, "STATEKEY" | "MIX") },
    };
    let n = 1 + r.below(5) as usize;
    let mut w = World { names: (0..n).map(|i| format!("gs-{}", i)).collect(), present: BTreeMap::new() };
    let mut initial = Vec::new();
    for name in w.names.clone() {
        if r.chance(1, 2) {
            let state = if r.chance(2, 3) { "Ready" } else { *r.pick(&STATES) };
            let defect = if m.unconv && r.chance(1, 5) { Defect::NoPorts } else { Defect::None };
            initial.push(gen_obj(r, &name, state, defect, &m.knobs));
            w.present.insert(name, defect == Defect::None && (state == "Ready" || state == "Allocated"));
        }
    }
    let len = 3 + r.below(8);
    let mut steps = Vec::new();
    let mut breaks = 0;
    for _ in 0..len {
        let roll = r.below(20);
        let step = if roll == 0 { Step::Bookmark }
        else if matches!(family, "DROP" | "MIX") && roll <= 4 && breaks < 3 {
            breaks += 1;
            Step::Drop { clean: r.chance(2, 3), missed: w.gen_missed(r, &m), compact: false }
        } else if matches!(family, "GONE" | "MIX") && roll <= 8 && breaks < 3 {
            breaks += 1;
            if r.chance(1, 2) {
                if r.chance(1, 4) { Step::Gone { missed: w.gen_missed(r, &m), fails: 1, page: 1, abort_mid: true } } else {
                Step::Gone { missed: w.gen_missed(r, &m), fails: if r.chance(1, 4) { 1 + r.below(2) as u32 } else { 0 },
                             page: if r.chance(1, 3) { 1 + r.below(2) as usize } else { 0 }, abort_mid: false } }
            } else {
                Step::Drop { clean: r.chance(1, 2), missed: w.gen_missed(r, &m), compact: true }
            }
        } else if family == "DELETE" && roll <= 8 {
            match w.gen_del(r, &m) { Some(d) => Step::Ch(d), None => Step::Ch(w.gen_set(r, &m)) }
        } else { Step::Ch(w.gen_change(r, &m)) };
        steps.push(step);
    }
    Scenario { family, initial, steps }
}

// ------------------------------------------------------------------ Gallina printers
fn g_pair_list(items: Vec<(String, String)>) -> String {
    g_list(&items.into_iter().map(|(k, v)| format!("({}, {})", g_str(&k), v)).collect::<Vec<_>>())
}
fn obj_entries(v: Option<&Value>) -> Vec<(String, Value)> {
    let mut es: Vec<(String, Value)> = v.and_then(|v| v.as_object()).map(|m| m.iter().map(|(k, v)| (k.clone(), v.clone())).collect()).unwrap_or_default();
    es.sort_by(|a, b| a.0.cmp(&b.0));
    es
}
/// a GameServer object (as JSON) as a term of type `gs`
fn g_gs(v: &Value) -> String {
    let name = g_opt(v["metadata"]["name"].as_str().map(g_str));
    let status = match v.get("status").filter(|s| s.is_object()) {
        None => "None".to_string(),
        Some(s) => {
            let ports: Vec<String> = s.get("ports").and_then(|p| p.as_array()).map(|a| a.iter().map(|p| g_z(p["port"].as_u64().unwrap() as i128)).collect()).unwrap_or_default();
            let counters = obj_entries(s.get("counters")).into_iter()
                .map(|(k, c)| (k, g_opt(c.get("count").and_then(|x| x.as_u64()).map(|x| g_z(x as i128))))).collect();
            let lists = obj_entries(s.get("lists")).into_iter()
                .map(|(k, l)| (k, g_list(&l.get("values").and_then(|x| x.as_array()).map(|a| a.iter().map(|x| g_str(x.as_str().unwrap())).collect::<Vec<_>>()).unwrap_or_default()))).collect();
            format!("(Some (mkStatus {} {} {} {} {}))", g_str(s["address"].as_str().unwrap()), g_list(&ports),
                    g_str(s["state"].as_str().unwrap()), g_pair_list(counters), g_pair_list(lists))
        }
    };
    let strs = |v: Option<&Value>| g_pair_list(obj_entries(v).into_iter().map(|(k, x)| (k, g_str(x.as_str().unwrap()))).collect());
    format!("(mkGs {} {} {} {})", name, status, strs(v["metadata"].get("labels")), strs(v["metadata"].get("annotations")))
}
fn g_change(c: &Change) -> String {
    match c { Change::Set(o) => format!("HSet {}", g_gs(o)), Change::Del(n) => format!("HDel {}", g_str(n)) }
}
fn g_event(e: &Result<watcher::Event<GameServer>, watcher::Error>) -> String {
    let o = |g: &GameServer| g_gs(&serde_json::to_value(g).unwrap());
    match e {
        Ok(watcher::Event::Init) => "EInit".into(),
        Ok(watcher::Event::InitApply(g)) => format!("EInitApply {}", o(g)),
        Ok(watcher::Event::InitDone) => "EInitDone".into(),
        Ok(watcher::Event::Apply(g)) => format!("EApply {}", o(g)),
        Ok(watcher::Event::Delete(g)) => format!("EDelete {}", o(g)),
        Err(_) => "EError".into(),
    }
}

// ------------------------------------------------------------------ running one case
type EventLog = Arc<Mutex<Vec<String>>>;

async fn observe(adapter: &AgonesDiscoveryAdapter) -> Vec<String> {
    let mut ts = adapter.discover().await.unwrap();
    ts.sort_by(|a, b| a.identifier.cmp(&b.identifier));
    ts.iter().map(|t| {
        let mut meta: Vec<(String, String)> = t.meta.iter().map(|(k, v)| (k.clone(), g_str(v))).collect();
        meta.sort();
        format!("mkOT {} {} {} {}", g_str(&t.identifier), g_str(&t.address.ip().to_string()), t.address.port(), g_pair_list(meta))
    }).collect()
}

/// wait (virtual time) until both clients have a live watch again and neither the recorded
/// events nor the offered set moved for a few polls
async fn settle(mock: &Arc<Mutex<Mock>>, events: &EventLog, adapter: &AgonesDiscoveryAdapter) -> (bool, Vec<String>) {
    let mut last: Option<(usize, Vec<String>)> = None;
    let mut stable = 0;
    for _ in 0..6000 {
        tokio::time::sleep(Duration::from_millis(5)).await;
        std::thread::yield_now();
        let live = { let m = mock.lock().unwrap(); m.is_live(0) && m.is_live(1) };
        let cur = (events.lock().unwrap().len(), observe(adapter).await);
        stable = if live && last.as_ref() == Some(&cur) { stable + 1 } else { 0 };
        last = Some(cur);
        if stable >= 6 { return (true, last.unwrap().1); }
    }
    (false, last.unwrap().1)
}

#[derive(Default)]
struct Totals { cases: u64, steps: u64, not_quiet: u64, lists: u64, list_failures: u64, pages: u64, watches: u64, gone_on_resume: u64, events: u64, max_offered: usize }

async fn run_case(sc: &Scenario, tot: &mut Totals) -> String {
    let mock = Arc::new(Mutex::new(Mock::default()));
    for o in &sc.initial { mock.lock().unwrap().apply(&Change::Set(o.clone()), false); }
    let listener = TcpListener::bind("127.0.0.1:0").await.unwrap();
    let port = listener.local_addr().unwrap().port();
    let m2 = mock.clone();
    tokio::spawn(async move {
        loop {
            let Ok((sock, _)) = listener.accept().await else { return };
            let _ = sock.set_nodelay(true);
            tokio::spawn(serve_conn(sock, m2.clone()));
        }
    });
    let cfg = std::env::temp_dir().join(format!("c20-kubeconfig-{}.yaml", std::process::id()));
    std::fs::write(&cfg, format!("apiVersion: v1\nkind: Config\nclusters:\n- name: mock\n  cluster:\n    server: http://127.0.0.1:{port}\ncontexts:\n- name: mock\n  context:\n    cluster: mock\n    user: mock\ncurrent-context: mock\nusers:\n- name: mock\n  user: {{}}\n")).unwrap();
    unsafe { std::env::set_var("KUBECONFIG", &cfg); }

    // the observer: an independent watcher stream on the same mock
    let events: EventLog = Arc::new(Mutex::new(Vec::new()));
    let ev2 = events.clone();
    let client = Client::try_default().await.unwrap();
    let api: Api<GameServer> = Api::namespaced(client, "obs");
    tokio::spawn(async move {
        let mut s = watcher(api, watcher::Config::default()).default_backoff().boxed();
        while let Some(e) = s.next().await { ev2.lock().unwrap().push(g_event(&e)); }
    });
    // the adapter under test
    let adapter = AgonesDiscoveryAdapter::new(None, watcher::Config::default()).await.unwrap();
    let _ = std::fs::remove_file(&cfg);

    let mut taken = 0usize;
    let mut take_events = |events: &EventLog| -> String {
        let ev = events.lock().unwrap();
        let new: Vec<String> = ev[taken..].to_vec();
        taken = ev.len();
        g_list(&new)
    };
    let (quiet0, offered0) = settle(&mock, &events, &adapter).await;
    if !quiet0 { tot.not_quiet += 1; }
    let init_events = take_events(&events);
    let mut obs: Vec<String> = Vec::new();
    for st in &sc.steps {
        let hsteps: Vec<String> = {
            let mut m = mock.lock().unwrap();
            match st {
                Step::Ch(c) => match m.apply(c, true) {
                    Some(("ADDED", o)) => vec![format!("HAdded {}", g_gs(&o))],
                    Some(("MODIFIED", o)) => vec![format!("HModified {}", g_gs(&o))],
                    Some((_, o)) => vec![format!("HDeleted {}", g_gs(&o))],
                    None => vec![],
                },
                Step::Bookmark => { m.bookmark(); vec!["HBookmark".into()] }
                Step::Drop { clean, missed, compact } => {
                    for c in missed { m.apply(c, false); }
                    if *compact { m.compact(); }
                    for l in m.live.drain(..) { let _ = l.tx.send(if *clean { Cmd::EndClean } else { Cmd::Abort }); }
                    vec![format!("HDrop {} {} {}", g_bool(*clean), g_list(&missed.iter().map(g_change).collect::<Vec<_>>()), g_bool(*compact))]
                }
                Step::Gone { missed, fails, page, abort_mid } => {
                    if *abort_mid && *page > 0 && m.store.len() > *page {
                        // the first page of the re-list is served from the OLD world, the continuation fails,
                        // and only then do the missed changes happen; the next attempt sees the new world
                        m.late = missed.clone();
                        m.compact();
                        m.page = *page;
                        for c in 0..2 { m.list_plan[c] = [false, true].into_iter().collect(); }
                    } else {
                    for c in missed { m.apply(c, false); }
                    m.compact();
                    m.page = *page;
                    for c in 0..2 { m.list_plan[c] = (0..*fails).map(|_| true).collect(); }
                    }
                    let line = gone_line();
                    for l in m.live.drain(..) { let _ = l.tx.send(Cmd::Line(line.clone())); }
                    vec![format!("HGone {} {} {}", g_list(&missed.iter().map(g_change).collect::<Vec<_>>()), fails, page)]
                }
            }
        };
        for h in hsteps {
            let (quiet, offered) = settle(&mock, &events, &adapter).await;
            if !quiet { tot.not_quiet += 1; }
            tot.steps += 1;
            tot.max_offered = tot.max_offered.max(offered.len());
            obs.push(format!("mkObs ({}) {} {} {}", h, take_events(&events), g_list(&offered), g_bool(quiet)));
        }
    }
    let m = mock.lock().unwrap();
    tot.cases += 1;
    tot.lists += m.lists[0] + m.lists[1];
    tot.list_failures += m.list_failures[0] + m.list_failures[1];
    tot.pages += m.pages;
    tot.watches += m.watches[0] + m.watches[1];
    tot.gone_on_resume += m.gone_on_resume;
    tot.events += taken as u64;
    format!("(C20 {} {} {} {} {})", g_list(&sc.initial.iter().map(g_gs).collect::<Vec<_>>()), init_events, g_list(&offered0), g_bool(quiet0), g_list(&obs))
}

fn run_paused(sc: &Scenario, tot: &mut Totals) -> String {
    let rt = tokio::runtime::Builder::new_current_thread().enable_all().start_paused(true).build().unwrap();
    let term = rt.block_on(run_case(sc, tot));
    drop(rt); // ends the adapter's task, the observer, the mock
    term
}

/// hand-written histories: the defect witnesses and the corner cases named in the property
fn fixed_scenarios() -> Vec<Scenario> {
    let k = Knobs { state_key: false };
    let mut r = Rng(20);
    let mut ready = |name: &str, st: &str| gen_obj(&mut r, name, st, Defect::None, &k);
    let a = ready("gs-0", "Ready");
    let b = ready("gs-1", "Allocated");
    let c = ready("gs-2", "Ready");
    let mut no_ports = a.clone();
    no_ports["status"]["ports"] = json!([]);
    let mut bad_addr = b.clone();
    bad_addr["status"]["address"] = json!("gs.example.org");
    let mut no_status = c.clone();
    no_status.as_object_mut().unwrap().remove("status");
    let mut masked = ready("gs-3", "Shutdown");
    masked["metadata"]["labels"] = json!({"state": "Ready"});
    let mut hidden = ready("gs-4", "Ready");
    hidden["metadata"]["annotations"] = json!({"state": "Draining"});
    vec![
        // a server deleted while Ready
        Scenario { family: "DELETE", initial: vec![], steps: vec![Step::Ch(Change::Set(a.clone())), Step::Ch(Change::Del("gs-0".into()))] },
        Scenario { family: "DELETE", initial: vec![a.clone(), b.clone()], steps: vec![Step::Ch(Change::Del("gs-1".into())), Step::Bookmark, Step::Ch(Change::Del("gs-0".into()))] },
        // offered servers that lose their ports / address / status
        Scenario { family: "UNCONV", initial: vec![a.clone(), b.clone(), c.clone()], steps: vec![Step::Ch(Change::Set(no_ports)), Step::Ch(Change::Set(bad_addr)), Step::Ch(Change::Set(no_status)), Step::Ch(Change::Set(a.clone()))] },
        // a label / annotation called "state"
        Scenario { family: "STATEKEY", initial: vec![], steps: vec![Step::Ch(Change::Set(masked)), Step::Ch(Change::Set(hidden))] },
        // servers that vanished during a watch gap: 410 on the live watch, and on the resumed one
        Scenario { family: "GONE", initial: vec![a.clone(), b.clone()], steps: vec![Step::Gone { missed: vec![Change::Del("gs-0".into()), Change::Set(c.clone())], fails: 0, page: 0, abort_mid: false }] },
        Scenario { family: "GONE", initial: vec![a.clone(), b.clone(), c.clone()], steps: vec![Step::Drop { clean: true, missed: vec![Change::Del("gs-1".into())], compact: true }, Step::Gone { missed: vec![Change::Del("gs-2".into())], fails: 2, page: 1, abort_mid: false }] },
        // a paginated re-list aborted after its first page; a server of that page is gone when the list is retried
        Scenario { family: "GONE", initial: vec![a.clone(), b.clone(), c.clone()], steps: vec![Step::Gone { missed: vec![Change::Del("gs-0".into())], fails: 1, page: 1, abort_mid: true }] },
        // missed deletion replayed on the resumed watch
        Scenario { family: "DROP", initial: vec![a.clone(), b.clone()], steps: vec![Step::Drop { clean: false, missed: vec![Change::Del("gs-0".into())], compact: false }, Step::Drop { clean: true, missed: vec![], compact: false }] },
    ]
}

fn main() {
    let mut r = Rng::from_env();
    let scale: u64 = std::env::var("VERIF_SCALE").ok().and_then(|s| s.parse().ok()).unwrap_or(1);
    let mut tot = Totals::default();
    let mut per_family: BTreeMap<&'static str, u64> = BTreeMap::new();
    for sc in fixed_scenarios() {
        let term = run_paused(&sc, &mut tot);
        *per_family.entry(sc.family).or_default() += 1;
        emit_case(sc.family, &term);
    }
    // (family, cases at scale 1)
    for (family, n) in [("PLAIN", 30u64), ("DELETE", 40), ("UNCONV", 40), ("STATEKEY", 30), ("DROP", 40), ("GONE", 50), ("MIX", 60)] {
        for _ in 0..n * scale {
            let sc = gen_scenario(&mut r, family);
            let term = run_paused(&sc, &mut tot);
            *per_family.entry(family).or_default() += 1;
            emit_case(family, &term);
        }
    }
    emit_note("cases", &format!("{:?}", per_family));
    emit_note("steps", &tot.steps.to_string());
    emit_note("steps_not_quiescent", &tot.not_quiet.to_string());
    emit_note("http_list_requests", &format!("{} ({} answered 500, {} continued pages)", tot.lists, tot.list_failures, tot.pages));
    emit_note("http_watch_requests", &format!("{} ({} answered 410 on resume)", tot.watches, tot.gone_on_resume));
    emit_note("kube_events_recorded", &tot.events.to_string());
    emit_note("max_offered", &tot.max_offered.to_string());
    emit_note("clock", "paused tokio clock per case (auto-advance); loopback TCP is real");
}
