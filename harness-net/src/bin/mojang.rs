//! C12 correspondence driver: runs the real `MojangAdapter::authenticate` of
//! passage-adapters-http against a hand-written plain-HTTP/1.1 mock on loopback and records,
//! byte for byte, the request target (path + query) of the has-joined request it makes.
//!
//! The adapter is redirected by the `#[cfg(passage_verif)]` hook in mojang_adapter.rs
//! (`PASSAGE_VERIF_SESSION_BASE` replaces scheme, host and port of the URL only); URL
//! construction, reqwest, hyper and the request line on the wire are the real ones.
//!
//! Family REQ: `(REQ server_id name secret pubkey hash request_target)` where
//!   hash           = the real `minecraft_hash(server_id, secret, pubkey)` (what the adapter computes),
//!   request_target = bytes between "GET " and " HTTP/1.1" of the first line the mock received;
//!                    empty if the adapter returned without any request reaching the mock.
use passage_adapters::authentication::{AuthenticationAdapter, minecraft_hash};
use passage_adapters_http::MojangAdapter;
use std::collections::BTreeMap;
use std::io::{Read, Write};
use std::net::{SocketAddr, TcpListener};
use std::sync::atomic::{AtomicUsize, Ordering};
use std::sync::mpsc;
use uuid::Uuid;
use vh::*;

/// 0 = answer 200 with a minimal profile, 1 = answer 204 (what Mojang sends for "not joined")
static MODE: AtomicUsize = AtomicUsize::new(0);

fn serve(listener: TcpListener, tx: mpsc::Sender<Vec<u8>>) {
    for conn in listener.incoming() {
        let Ok(mut s) = conn else { continue };
        let _ = s.set_read_timeout(Some(std::time::Duration::from_secs(5)));
        // read the request head (there is no body on a GET)
        let mut head: Vec<u8> = Vec::new();
        let mut buf = [0u8; 4096];
        while !head.windows(4).any(|w| w == b"\r\n\r\n") && head.len() < (1 << 20) {
            match s.read(&mut buf) {
                Ok(0) | Err(_) => break,
                Ok(n) => head.extend_from_slice(&buf[..n]),
            }
        }
        let line_end = head.windows(2).position(|w| w == b"\r\n").unwrap_or(head.len());
        let _ = tx.send(head[..line_end].to_vec());
        let resp: Vec<u8> = if MODE.load(Ordering::SeqCst) == 0 {
            let body = br#"{"id":"069a79f444e94726a5befca90e38aaf5","name":"x","properties":[]}"#;
            let mut r = format!(
                "HTTP/1.1 200 OK\r\nContent-Type: application/json\r\nContent-Length: {}\r\nConnection: close\r\n\r\n",
                body.len()
            )
            .into_bytes();
            r.extend_from_slice(body);
            r
        } else {
            b"HTTP/1.1 204 No Content\r\nConnection: close\r\n\r\n".to_vec()
        };
        let _ = s.write_all(&resp);
        let _ = s.flush();
    }
}

/// request target of a request line `GET <target> HTTP/1.1`; any other shape is returned whole
/// (the monitor then rejects it)
fn target_of(line: &[u8]) -> Vec<u8> {
    match (line.strip_prefix(b"GET "), line.len()) {
        (Some(rest), _) if rest.ends_with(b" HTTP/1.1") => rest[..rest.len() - 9].to_vec(),
        _ => line.to_vec(),
    }
}

// ------------------------------------------------------------------ generators
const SPECIAL: &[char] = &[
    '&', '=', '#', '?', '%', '+', '/', '\\', ' ', '\t', '\0', '\u{7f}', '\r', '\n', ';', ':', '@', '"', '\'', '<',
    '>', '`', '{', '}', '|', '^', '[', ']', '~', '*', '-', '.', '_', '!', '$', '(', ')', ',',
];

fn fixed_names(real_hash: &str) -> Vec<String> {
    let mut v: Vec<String> = [
        "",
        "Notch",
        "jeb_",
        "Victim&serverId=abc",
        "Victim&serverId=abc&x=",
        "x#",
        "x#&serverId=",
        "a%26b",
        "a%26serverId%3Dabc",
        "../../x",
        "a/../b?",
        "/session/minecraft/join",
        "?username=y",
        "x?y",
        "a b",
        " lead",
        "trail ",
        "   ",
        "a+b",
        "a=b",
        "=",
        "==",
        "&",
        "&&",
        "&=",
        "a&",
        "&a",
        "x&unsigned=false",
        "x&username=Victim",
        "%",
        "%2",
        "%zz",
        "100%",
        "%00",
        "%0d%0a",
        "a\\b",
        "tab\there",
        "nul\0x",
        "\0",
        "del\u{7f}",
        "cr\rlf\nend",
        "\r\n",
        "x HTTP/1.1\r\nHost: evil\r\n\r\nGET /",
        "x\r\nX-Injected: 1",
        "\u{e9}",
        "\u{20ac}",
        "\u{1d11e}",
        "\u{ff06}\u{ff1d}\u{ff03}",
        "\u{80}\u{7ff}\u{800}\u{ffff}\u{10000}\u{10ffff}",
        "\u{feff}x",
        "\u{2028}\u{2029}\u{85}",
        "*-._",
        "~!$'(),;:@",
        "\"<>`{}|^[]",
        "AZaz09",
    ]
    .iter()
    .map(|s| s.to_string())
    .collect();
    // every ASCII character once, in order (and once reversed)
    let ascii: String = (0u8..128).map(|b| b as char).collect();
    v.push(ascii.clone());
    v.push(ascii.chars().rev().collect());
    // long names: 300 bytes plain, 300 bytes of specials, 300 bytes of 3-byte scalars
    v.push("a".repeat(300));
    v.push("&=#?%+/ ".repeat(38)[..300].to_string());
    v.push("\u{20ac}".repeat(100));
    v.push("b".repeat(4000));
    // the attack proper: a second serverId carrying a well-formed hash (here: the victim's)
    v.push(format!("Victim&serverId={real_hash}"));
    v.push(format!("Victim&serverId={real_hash}#"));
    v
}

fn gen_name(r: &mut Rng) -> String {
    match r.below(7) {
        0 => r.utf8(24),
        1 => {
            // ordinary player name
            let n = 1 + r.below(16) as usize;
            (0..n).map(|_| *r.pick(&['a', 'Z', '0', '9', '_', 'q', 'M', '5'])).collect()
        }
        2 => {
            // looks like extra parameters
            let keys = ["serverId", "username", "unsigned", "ip", "x"];
            let mut s: String = "Victim".into();
            for _ in 0..1 + r.below(3) {
                s.push(*r.pick(&['&', '&', ';', '#', '?']));
                s.push_str(*r.pick(&keys[..]));
                s.push('=');
                let n = r.below(12) as usize;
                for _ in 0..n { s.push(*r.pick(&['0', '7', 'a', 'f', '-', '%'])); }
            }
            s
        }
        3 => {
            // percent forms, valid and broken
            let mut s = String::new();
            for _ in 0..1 + r.below(6) {
                match r.below(4) {
                    0 => s.push_str(&format!("%{:02X}", r.below(256))),
                    1 => s.push_str(&format!("%{:02x}", r.below(256))),
                    2 => { s.push('%'); s.push(*r.pick(&['g', 'Z', ' ', '%', '1'])); }
                    _ => s.push(*r.pick(&['a', '+', ' ', '%'])),
                }
            }
            s
        }
        _ => {
            // dense in the special characters
            let n = r.below(20) as usize;
            (0..n)
                .map(|_| if r.chance(2, 3) { *r.pick(SPECIAL) } else { char::from_u32(0x20 + r.below(0x5f) as u32).unwrap() })
                .collect()
        }
    }
}

fn gen_id(r: &mut Rng) -> String {
    match r.below(8) {
        0 | 1 => String::new(), // what passage and vanilla servers use
        2 => "passage".into(),
        // ids that a "sanitising" constructor would alter: surrounding / inner whitespace, case, NUL
        6 => (*r.pick(&[" lobby-1 ", "lobby-1\n", "\tlobby 1", " ", "Lobby-1", "lobby-1\0", "\u{a0}x\u{a0}"])).into(),
        7 => format!("{}{}{}", r.pick(&["", " ", "\t", "\r\n"]), r.utf8(6), r.pick(&["", " ", "\n", "  "])),
        3 => r.utf8(12),
        4 => "id&serverId=0#".into(),
        _ => "a".repeat(*r.pick(&[1usize, 20, 55, 56, 64])),
    }
}
fn gen_secret(r: &mut Rng) -> Vec<u8> {
    let n = match r.below(6) { 0 => 0, 1 | 2 | 3 => 16, 4 => *r.pick(&[1usize, 15, 17, 32, 64]), _ => r.below(40) as usize };
    r.bytes(n)
}
fn gen_key(r: &mut Rng) -> Vec<u8> {
    let n = match r.below(5) { 0 => 0, 1 | 2 => 162, 3 => *r.pick(&[1usize, 94, 294]), _ => r.below(201) as usize };
    r.bytes(n)
}

fn classify(name: &str, stats: &mut BTreeMap<&'static str, usize>) {
    let mut hit = |k: &'static str| *stats.entry(k).or_insert(0) += 1;
    if name.is_empty() { hit("name_empty"); }
    if name.contains('&') { hit("name_amp"); }
    if name.contains('=') { hit("name_eq"); }
    if name.contains('#') { hit("name_hash"); }
    if name.contains('?') { hit("name_qmark"); }
    if name.contains('%') { hit("name_percent"); }
    if name.contains('+') { hit("name_plus"); }
    if name.contains(' ') { hit("name_space"); }
    if name.contains('/') || name.contains('\\') { hit("name_slash"); }
    if name.chars().any(|c| (c as u32) < 0x20 || c as u32 == 0x7f) { hit("name_control"); }
    if name.contains('\r') || name.contains('\n') { hit("name_crlf"); }
    if !name.is_ascii() { hit("name_non_ascii"); }
    if name.len() >= 300 { hit("name_300_bytes_or_more"); }
    if name.chars().all(|c| c.is_ascii_alphanumeric() || c == '_') && !name.is_empty() { hit("name_plain"); }
}

fn main() {
    // reqwest honours proxy variables; the mock must be reached directly.  Done before any
    // thread is started.
    for k in ["http_proxy", "HTTP_PROXY", "https_proxy", "HTTPS_PROXY", "all_proxy", "ALL_PROXY"] {
        unsafe { std::env::remove_var(k) };
    }
    unsafe { std::env::set_var("NO_PROXY", "127.0.0.1") };

    let listener = TcpListener::bind("127.0.0.1:0").expect("bind loopback");
    let port = listener.local_addr().unwrap().port();
    unsafe { std::env::set_var("PASSAGE_VERIF_SESSION_BASE", format!("http://127.0.0.1:{port}")) };
    let (tx, rx) = mpsc::channel::<Vec<u8>>();
    std::thread::spawn(move || serve(listener, tx));

    let mut r = Rng::from_env();
    let scale: usize = std::env::var("VERIF_SCALE").ok().and_then(|s| s.parse().ok()).unwrap_or(1);
    let mut stats: BTreeMap<&'static str, usize> = BTreeMap::new();

    // (server id, name, secret, key)
    let mut inputs: Vec<(String, String, Vec<u8>, Vec<u8>)> = Vec::new();
    {
        let (id, ss, pk) = (String::new(), r.bytes(16), r.bytes(162));
        let h = minecraft_hash(&id, &ss, &pk);
        for n in fixed_names(&h) { inputs.push((id.clone(), n, ss.clone(), pk.clone())); }
    }
    for _ in 0..120 * scale {
        inputs.push((gen_id(&mut r), gen_name(&mut r), gen_secret(&mut r), gen_key(&mut r)));
    }

    let client_addr: SocketAddr = "127.0.0.1:25565".parse().unwrap();
    let uuid = Uuid::nil();
    block_on(async {
        for (i, (id, name, ss, pk)) in inputs.iter().enumerate() {
            MODE.store(if i % 3 == 2 { 1 } else { 0 }, Ordering::SeqCst);
            while rx.try_recv().is_ok() {} // nothing may be left over from an earlier case
            let adapter = MojangAdapter::default().with_server_id(id.clone());
            let res = adapter.authenticate(&client_addr, ("localhost", 25565), 769, (name.as_str(), &uuid), ss, pk).await;
            let mut lines: Vec<Vec<u8>> = Vec::new();
            while let Ok(l) = rx.try_recv() { lines.push(l); }
            let target = lines.first().map(|l| target_of(l)).unwrap_or_default();
            let hash = minecraft_hash(id, ss, pk);
            classify(name, &mut stats);
            let mut hit = |k: &'static str| *stats.entry(k).or_insert(0) += 1;
            match lines.len() { 0 => hit("requests_0"), 1 => hit("requests_1"), _ => hit("requests_more") }
            match (&res, MODE.load(Ordering::SeqCst)) {
                (Ok(_), 0) => hit("result_ok_on_200"),
                (Err(passage_adapters::Error::FailedParse { .. }), 1) => hit("result_failed_parse_on_204"),
                (Err(passage_adapters::Error::FailedFetch { .. }), _) => hit("result_failed_fetch"),
                _ => hit("result_other"),
            }
            if hash.starts_with('-') { hit("hash_negative"); }
            if !id.is_empty() { hit("server_id_non_empty"); }
            emit_case(
                "REQ",
                &format!("(REQ {} {} {} {} {} {})", g_str(id), g_str(name), g_hex(ss), g_hex(pk), g_str(&hash), g_hex(&target)),
            );
            // every further request the adapter made for this one authentication (a retry) is judged like the first
            for l in lines.iter().skip(1) {
                emit_case(
                    "REQ",
                    &format!("(REQ {} {} {} {} {} {})", g_str(id), g_str(name), g_hex(ss), g_hex(pk), g_str(&hash), g_hex(&target_of(l))),
                );
            }
        }
    });
    emit_note("cases", &format!("{}", inputs.len()));
    for (k, v) in &stats { emit_note(k, &format!("{}", v)); }
}
