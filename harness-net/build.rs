// C19 (src/bin/grpc.rs): SERVER stubs of the adapter protos of /repo, generated the way
// /repo/passage-adapters/grpc/build.rs generates the client stubs (same protoc flag).
fn main() -> Result<(), Box<dyn std::error::Error>> {
    let proto_root = std::env::var("PASSAGE_GRPC_PROTO").unwrap_or_else(|_| "/repo/passage-adapters/grpc/proto".to_string());
    println!("cargo:rerun-if-env-changed=PASSAGE_GRPC_PROTO");
    println!("cargo:rerun-if-changed={}", proto_root);
    tonic_prost_build::configure()
        .protoc_arg("--experimental_allow_proto3_optional")
        .build_server(true)
        .build_client(false)
        .compile_protos(
            &[
                format!("{proto_root}/adapter/adapter.proto"),
                format!("{proto_root}/adapter/discovery.proto"),
                format!("{proto_root}/adapter/strategy.proto"),
            ],
            &[proto_root.clone()],
        )?;
    Ok(())
}
