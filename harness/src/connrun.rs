//! Runs the real `Connection::listen` against a scripted client, scripted adapters and a
//! scripted transport inside a paused current-thread runtime, and records everything the
//! Gallina model needs (inputs, oracle tables) and everything it predicts (observation).
use crate::pipe::*;
use crate::*;
use aes::cipher::{BlockDecryptMut, BlockEncryptMut, KeyIvInit};
use aes::cipher::generic_array::GenericArray;
use passage_adapters::authentication::{AuthenticationAdapter, Profile, ProfileProperty};
use passage_adapters::discovery::DiscoveryAdapter;
use passage_adapters::filter::FilterAdapter;
use passage_adapters::localization::LocalizationAdapter;
use passage_adapters::status::StatusAdapter;
use passage_adapters::strategy::StrategyAdapter;
use passage_adapters::{Protocol, ServerStatus, Target};
use passage_protocol::connection::Connection;
use passage_protocol::cookie::{AuthCookie, SessionCookie};
use passage_protocol::crypto;
use std::collections::HashMap;
use std::net::SocketAddr;
use std::panic::AssertUnwindSafe;
use std::sync::{Arc, Mutex};
use std::time::Duration;
use uuid::Uuid;

pub const FIXED_NOW: u64 = 1_700_000_000;

type Enc = cfb8::Encryptor<aes::Aes128>;
type Dec = cfb8::Decryptor<aes::Aes128>;

// ---------------------------------------------------------------- Gallina printers
pub fn g_sa(a: &SocketAddr) -> String {
    format!("{{| sa_ip := {}; sa_port := {} |}}", g_str(&a.ip().to_string()), a.port())
}
pub fn g_meta(m: &HashMap<String, String>) -> String {
    let mut kv: Vec<_> = m.iter().collect();
    kv.sort();
    g_list(&kv.iter().map(|(k, v)| format!("({}, {})", g_str(k), g_str(v))).collect::<Vec<_>>())
}
pub fn g_target(t: &Target) -> String {
    format!("{{| t_id := {}; t_addr := {}; t_meta := {} |}}", g_str(&t.identifier), g_sa(&t.address), g_meta(&t.meta))
}
pub fn g_targets(ts: &[Target]) -> String { g_list(&ts.iter().map(g_target).collect::<Vec<_>>()) }
pub fn g_prop(p: &ProfileProperty) -> String {
    format!("{{| pp_name := {}; pp_value := {}; pp_sig := {} |}}", g_str(&p.name), g_str(&p.value),
            g_opt(p.signature.as_ref().map(|s| g_str(s))))
}
pub fn g_props(ps: &[ProfileProperty]) -> String { g_list(&ps.iter().map(g_prop).collect::<Vec<_>>()) }
pub fn g_auth_cookie(c: &AuthCookie) -> String {
    let mut extra: Vec<_> = c.extra.iter().collect();
    extra.sort();
    format!("{{| ac_ts := {}; ac_addr := {}; ac_name := {}; ac_uuid := {}; ac_target := {}; ac_props := {}; ac_extra := {} |}}",
            c.timestamp, g_sa(&c.client_addr), g_str(&c.user_name), c.user_id.as_u128(),
            g_opt(c.target.as_ref().map(|t| g_str(t))), g_props(&c.profile_properties),
            g_list(&extra.iter().map(|(k, v)| format!("({}, {})", g_str(k), g_str(v))).collect::<Vec<_>>()))
}
pub fn g_session_cookie(c: &SessionCookie) -> String {
    format!("{{| sc_id := {}; sc_host := {}; sc_port := {} |}}", c.id.as_u128(), g_str(&c.server_address), c.server_port)
}

// ---------------------------------------------------------------- scripted adapters
#[derive(Clone, Debug)]
pub enum FilterMode { Identity, Mask(u64), Reverse, Empty, Foreign(Vec<Target>), Fail }
#[derive(Clone, Debug)]
pub enum SelectMode { First, Last, Nth(usize), NoneSel, Foreign(Target), Fail }

#[derive(Clone, Debug)]
pub struct AdScript {
    pub status: (Result<Option<ServerStatus>, ()>, u64),
    pub auth: (Result<Profile, ()>, u64),
    pub discover: (Result<Vec<Target>, ()>, u64),
    pub filter: (FilterMode, u64),
    pub select: (SelectMode, u64),
    pub loc_table: HashMap<String, HashMap<String, String>>, // real FixedLocalizationAdapter tables
    pub loc_default: String,
    pub loc_fail: bool,
    /// how long localize() suspends (ms); 0 = it does not suspend
    pub loc_lat: u64,
}

#[derive(Default)]
pub struct CallLog {
    pub calls: Vec<(u64, String)>,            // (virtual ms, Gallina `call`)
    pub call_seq: Vec<u64>,
    pub results: HashMap<&'static str, String>, // kind -> Gallina `(cres, latency)`
    pub loc: Vec<(String, String)>,           // ((locale, key) Gallina, cres Gallina)
}

#[derive(Clone)]
pub struct Scripted {
    pub sc: Arc<AdScript>,
    pub log: Arc<Mutex<CallLog>>,
    pub pipe: Pipe,
    pub real_loc: Arc<passage_adapters::FixedLocalizationAdapter>,
}
impl std::fmt::Debug for Scripted {
    fn fmt(&self, f: &mut std::fmt::Formatter<'_>) -> std::fmt::Result { write!(f, "Scripted") }
}
fn adapter_err() -> passage_adapters::Error {
    passage_adapters::Error::AdapterUnavailable { adapter_type: "scripted", reason: "scripted failure" }
}
impl Scripted {
    fn call(&self, term: String) { let t = self.pipe.now_ms(); let mut l = self.log.lock().unwrap(); l.calls.push((t, term)); l.call_seq.push(next_seq()); }
    fn result(&self, kind: &'static str, term: String, lat: u64) {
        self.log.lock().unwrap().results.insert(kind, format!("({}, {})", term, lat));
    }
}
impl StatusAdapter for Scripted {
    async fn status(&self, client: &SocketAddr, server: (&str, u16), protocol: Protocol) -> passage_adapters::Result<Option<ServerStatus>> {
        self.call(format!("(CStatus {} {} {} {})", g_sa(client), g_str(server.0), server.1, g_z(protocol)));
        let (r, lat) = self.sc.status.clone();
        let term = match &r { Ok(s) => format!("(RStatus {})", g_str(&serde_json::to_string(s).unwrap())), Err(_) => "RErr".into() };
        self.result("status", term, lat);
        tokio::time::sleep(Duration::from_millis(lat)).await;
        r.map_err(|_| adapter_err())
    }
}
impl AuthenticationAdapter for Scripted {
    async fn authenticate(&self, client: &SocketAddr, server: (&str, u16), protocol: Protocol, user: (&str, &Uuid),
                          shared_secret: &[u8], encoded_public: &[u8]) -> passage_adapters::Result<Profile> {
        self.call(format!("(CAuth {} {} {} {} {} {} {} {})", g_sa(client), g_str(server.0), server.1, g_z(protocol),
                          g_str(user.0), user.1.as_u128(), g_hex(shared_secret), g_hex(encoded_public)));
        let (r, lat) = self.sc.auth.clone();
        let term = match &r { Ok(p) => format!("(RProfile {} {} {})", g_str(&p.name), p.id.as_u128(), g_props(&p.properties)), Err(_) => "RErr".into() };
        self.result("auth", term, lat);
        tokio::time::sleep(Duration::from_millis(lat)).await;
        r.map_err(|_| adapter_err())
    }
}
impl DiscoveryAdapter for Scripted {
    async fn discover(&self) -> passage_adapters::Result<Vec<Target>> {
        self.call("CDiscover".into());
        let (r, lat) = self.sc.discover.clone();
        let term = match &r { Ok(ts) => format!("(RTargets {})", g_targets(ts)), Err(_) => "RErr".into() };
        self.result("discover", term, lat);
        tokio::time::sleep(Duration::from_millis(lat)).await;
        r.map_err(|_| adapter_err())
    }
}
impl FilterAdapter for Scripted {
    async fn filter(&self, client: &SocketAddr, server: (&str, u16), protocol: Protocol, user: (&str, &Uuid),
                    targets: Vec<Target>) -> passage_adapters::Result<Vec<Target>> {
        self.call(format!("(CFilter {} {} {} {} {} {} {})", g_sa(client), g_str(server.0), server.1, g_z(protocol),
                          g_str(user.0), user.1.as_u128(), g_targets(&targets)));
        let (m, lat) = self.sc.filter.clone();
        let r: Result<Vec<Target>, ()> = match m {
            FilterMode::Identity => Ok(targets),
            FilterMode::Mask(mask) => Ok(targets.into_iter().enumerate().filter(|(i, _)| mask >> (i % 64) & 1 == 1).map(|(_, t)| t).collect()),
            FilterMode::Reverse => Ok(targets.into_iter().rev().collect()),
            FilterMode::Empty => Ok(vec![]),
            FilterMode::Foreign(f) => Ok(f),
            FilterMode::Fail => Err(()),
        };
        let term = match &r { Ok(ts) => format!("(RTargets {})", g_targets(ts)), Err(_) => "RErr".into() };
        self.result("filter", term, lat);
        tokio::time::sleep(Duration::from_millis(lat)).await;
        r.map_err(|_| adapter_err())
    }
}
impl StrategyAdapter for Scripted {
    async fn select(&self, client: &SocketAddr, server: (&str, u16), protocol: Protocol, user: (&str, &Uuid),
                    targets: Vec<Target>) -> passage_adapters::Result<Option<Target>> {
        self.call(format!("(CSelect {} {} {} {} {} {} {})", g_sa(client), g_str(server.0), server.1, g_z(protocol),
                          g_str(user.0), user.1.as_u128(), g_targets(&targets)));
        let (m, lat) = self.sc.select.clone();
        let r: Result<Option<Target>, ()> = match m {
            SelectMode::First => Ok(targets.first().cloned()),
            SelectMode::Last => Ok(targets.last().cloned()),
            SelectMode::Nth(n) => Ok(if targets.is_empty() { None } else { Some(targets[n % targets.len()].clone()) }),
            SelectMode::NoneSel => Ok(None),
            SelectMode::Foreign(t) => Ok(Some(t)),
            SelectMode::Fail => Err(()),
        };
        let term = match &r { Ok(t) => format!("(RTarget {})", g_opt(t.as_ref().map(g_target))), Err(_) => "RErr".into() };
        self.result("select", term, lat);
        tokio::time::sleep(Duration::from_millis(lat)).await;
        r.map_err(|_| adapter_err())
    }
}
impl LocalizationAdapter for Scripted {
    async fn localize(&self, locale: Option<&str>, key: &str, params: &[(&'static str, String)]) -> passage_adapters::Result<String> {
        let cterm = format!("(CLocalize {} {})", g_opt(locale.map(g_str)), g_str(key));
        self.call(cterm);
        if self.sc.loc_lat > 0 { tokio::time::sleep(Duration::from_millis(self.sc.loc_lat)).await; }
        let r = if self.sc.loc_fail { Err(adapter_err()) } else { self.real_loc.localize(locale, key, params).await };
        let term = match &r { Ok(s) => format!("(RText {})", g_str(s)), Err(_) => "RErr".into() };
        self.log.lock().unwrap().loc.push((format!("({}, {})", g_opt(locale.map(g_str)), g_str(key)), term));
        r
    }
}

// ---------------------------------------------------------------- client script
#[derive(Clone, Debug)]
pub enum TokenMode { Echo, FlipBit(usize), Stale(Vec<u8>), Empty, Random(usize) }
#[derive(Clone, Debug)]
pub enum SecretMode { Good16, Len(usize) }
#[derive(Clone, Debug)]
pub enum KeyMode { ServerKey, OtherKey, Garbage(usize) }
#[derive(Clone, Debug)]
pub enum KaPolicy { Prompt(u64), Never, WrongId(u64), Duplicate(u64), StopAfter(usize, u64) }

#[derive(Clone, Debug)]
pub enum Act {
    Sleep(u64),
    /// sleep until this absolute virtual time (ms); nothing if it has passed
    SleepUntil(u64),
    /// let REAL time pass (blocks the thread): only for the rare cases run under the real wall clock
    RealSleep(u64),
    /// a whole frame (VarInt length, VarInt id, body), delivered atomically
    Frame { id: i32, body: Vec<u8> },
    /// raw bytes delivered atomically (malformed frames, segments)
    Raw(Vec<u8>),
    /// wait for the next server frame with this id (or for the server to finish)
    WaitServer { id: i32 },
    EncResponse { token: TokenMode, secret: SecretMode, key: KeyMode },
    SetKa(KaPolicy),
    Eof,
    /// wait until the server task has finished (bounded in virtual time)
    WaitDone,
}

#[derive(Clone, Debug)]
pub struct Scenario {
    pub family: &'static str,
    pub client_addr: SocketAddr,
    pub secret: Option<Vec<u8>>,
    pub max_len: i32,
    pub expiry: u64,
    pub ads: AdScript,
    pub acts: Vec<Act>,
    pub clock: u64,
    /// transport knobs (M2)
    pub max_read_chunk: usize,
    pub write_script: Vec<WriteResp>,
    pub tear_at: Option<u64>,
    /// M3 transport: instants (ms) at which the free room of the transport is set (None = unlimited); empty = off
    pub wsched: Vec<(u64, Option<usize>)>,
    /// the client does not wait for Login Success: its Encryption Response and the (already encrypted) frames that
    /// follow are made readable at the same instant, without the server running in between
    pub glue: bool,
    pub note: String,
}

pub fn frame_bytes(id: i32, body: &[u8]) -> Vec<u8> {
    let mut inner = Vec::new();
    put_varint(&mut inner, id);
    inner.extend_from_slice(body);
    let mut out = Vec::new();
    put_varint(&mut out, inner.len() as i32);
    out.extend_from_slice(&inner);
    out
}
pub fn put_varint(out: &mut Vec<u8>, v: i32) {
    let mut u = v as u32;
    loop {
        let b = (u & 0x7f) as u8;
        u >>= 7;
        if u != 0 { out.push(b | 0x80); } else { out.push(b); break; }
    }
}
pub fn get_varint(b: &[u8]) -> Option<(i32, usize)> {
    let mut ans: u32 = 0;
    for i in 0..5 {
        let x = *b.get(i)?;
        ans |= ((x & 0x7f) as u32) << (7 * i);
        if x & 0x80 == 0 { return Some((ans as i32, i + 1)); }
    }
    Some((ans as i32, 5))
}
pub fn put_string(out: &mut Vec<u8>, s: &[u8]) { put_varint(out, s.len() as i32); out.extend_from_slice(s); }

/// what one run recorded
#[derive(Default, Clone)]
pub struct RunRecord {
    pub inbox: Vec<(u64, Option<(i32, Vec<u8>)>)>,   // frames delivered atomically (None = EOF); only if all input was framed
    pub raw_in: Vec<(u64, Vec<u8>)>,                // every pushed segment (plain, before client encryption), and
    pub wire_in: Vec<(u64, Vec<u8>)>,               // the same segments as put on the wire (after client encryption)
    pub eof_at: Option<u64>,
    pub framed: bool,
    pub sent: Vec<(u64, i32, Vec<u8>)>,             // server frames, decrypted: (time, id, body)
    pub wire_out: Vec<(u64, Vec<u8>)>,              // accepted chunks as on the wire
    pub calls: Vec<(u64, String)>,
    pub call_seq: Vec<u64>,
    pub sent_seq: Vec<u64>,
    pub results: HashMap<&'static str, String>,
    pub loc: Vec<(String, String)>,
    pub outcome: String,                            // Gallina `outcome`
    pub end_ms: u64,
    pub rsa: Vec<(Vec<u8>, Option<Vec<u8>>)>,
    pub token: Vec<u8>,
    pub ka_ids: Vec<u64>,
    pub shared_secret: Option<Vec<u8>>,             // the secret the client chose (if it sent one)
    pub out_len_at_enc_response: Option<usize>,     // bytes the server had written when the client sent its Encryption Response
    pub enc_from_out_offset: Option<usize>,         // wire_out byte offset from which the client decrypted
    pub enc_from_in_offset: Option<usize>,
    pub max_alloc: usize,
    pub panicked: bool,
    pub out_garbled: bool,
    pub reads: Vec<(u64, usize)>,
    pub write_calls: Vec<(u64, usize, i64)>,
    pub torn_pending_at: Option<u64>,
    pub eof_spin: bool,
}

fn outcome_term(r: &Result<(), passage_protocol::Error>) -> String {
    use passage_protocol::Error as E;
    match r {
        Ok(()) => "OOk".into(),
        Err(e) => format!("(OErr {})", match e {
            E::ConnectionClosed(_) => "KClosed",
            E::IllegalPacketLength => "KIllegalLen",
            E::IllegalEnumValue { .. } => "KIllegalEnum",
            E::UnexpectedPacketId(_) => "KUnexpectedId",
            E::InvalidEncoding => "KUtf8",
            E::Json(_) => "KJson",
            E::CryptographyFailed(_) => "KCrypto",
            E::InvalidVerifyToken => "KInvalidToken",
            E::AdapterError(_) => "KAdapter",
            E::MissedKeepAlive => "KMissedKA",
            E::NoTargetFound => "KNoTarget",
            E::InternalIo(_) => "KInternalIo",
            E::ArrayConversionFailed => "KArray",
            E::Nbt(_) => "KNbt",
            E::AuthRequestFailed(_) => "KAdapter",
        }),
    }
}

static OTHER_KEY: std::sync::LazyLock<rsa::RsaPublicKey> = std::sync::LazyLock::new(|| {
    let mut rng = rand::rand_core::UnwrapErr(rand::rngs::SysRng);
    let k = rsa::RsaPrivateKey::new(&mut rng, 1024).expect("keygen");
    rsa::RsaPublicKey::from(&k)
});

struct ClientState {
    enc: Option<Enc>,
    dec: Option<Dec>,
    parsed_upto: usize,       // bytes of the (decrypted) output stream parsed into frames
    plain_out: Vec<u8>,       // decrypted server output
    chunk_seen: usize,        // chunks of out_log consumed
    chunk_ends: Vec<(usize, u64, u64)>, // (cumulative plain length, time, seq) per chunk
    frames: Vec<(u64, i32, Vec<u8>)>,
    frame_cursor: usize,      // frames already matched by WaitServer
    in_config: bool,
    ka: KaPolicy,
    ka_echoed: usize,
    ka_seen: usize,           // keep-alive frames already handled
    last_enc_req: Option<(Vec<u8>, Vec<u8>)>, // (public key, token)
}

/// run one scenario to completion; deterministic under the paused clock
pub fn run_scenario(sc: &Scenario, rng: &mut Rng) -> RunRecord {
    let rt = tokio::runtime::Builder::new_current_thread().enable_all().start_paused(true).build().unwrap();
    passage_protocol::verif::CLOCK_OVERRIDE.store(sc.clock, std::sync::atomic::Ordering::SeqCst);
    let seed = rng.next();
    let sc = sc.clone();
    rt.block_on(async move {
        let mut rng = Rng(seed);
        let pipe = Pipe::new();
        { let mut s = pipe.st.lock().unwrap(); s.max_read_chunk = sc.max_read_chunk; s.write_script = sc.write_script.iter().cloned().collect(); s.tear_at = sc.tear_at;
          if !sc.wsched.is_empty() { s.wsched_on = true; s.wsched = sc.wsched.iter().cloned().collect(); } }
        // the writer is woken at every instant of the schedule
        for (te, _) in sc.wsched.iter() {
            let (p2, te) = (pipe.clone(), *te);
            tokio::spawn(async move { tokio::time::sleep(Duration::from_millis(te)).await; p2.wake_writer(); });
        }
        let sched_mode = !sc.wsched.is_empty();
        let log = Arc::new(Mutex::new(CallLog::default()));
        let real_loc = Arc::new(passage_adapters::FixedLocalizationAdapter::new(sc.ads.loc_default.clone(), sc.ads.loc_table.clone()));
        let ad = Arc::new(Scripted { sc: Arc::new(sc.ads.clone()), log: log.clone(), pipe: pipe.clone(), real_loc });
        let done = Arc::new(Mutex::new(None::<(String, u64, bool, usize)>));
        let done2 = done.clone();
        let spipe = pipe.clone();
        let (client_addr, secret, max_len, expiry) = (sc.client_addr, sc.secret.clone(), sc.max_len, sc.expiry);
        let ad2 = ad.clone();
        let server = tokio::spawn(async move {
            let mut conn = Connection::new(ServerEnd(spipe.clone()), ad2.clone(), ad2.clone(), ad2.clone(), ad2.clone(), ad2.clone(), ad2.clone())
                .with_client_address(client_addr).with_auth_secret(secret)
                .with_max_packet_length(max_len).with_auth_cookie_expiry(expiry);
            alloc_reset();
            let r = futures_catch(AssertUnwindSafe(conn.listen())).await;
            let maxreq = alloc_max_request();
            let t = spipe.now_ms();
            let (term, panicked) = match r { Ok(r) => (outcome_term(&r), false), Err(_) => ("(OErr KPanic)".to_string(), true) };
            *done2.lock().unwrap() = Some((term, t, panicked, maxreq));
            spipe.out_notify.notify_waiters();
        });

        let mut rec = RunRecord { framed: true, ..Default::default() };
        let mut cs = ClientState { enc: None, dec: None, parsed_upto: 0, plain_out: vec![], chunk_seen: 0, chunk_ends: vec![], frames: vec![],
                                   frame_cursor: 0, in_config: false, ka: KaPolicy::Prompt(50), ka_echoed: 0, ka_seen: 0, last_enc_req: None };
        // pending keep-alive echoes: (due time ms, id)
        let mut echoes: Vec<(u64, u64)> = vec![];
        let mut wire_in_len = 0usize;

        macro_rules! is_done { () => { done.lock().unwrap().is_some() } }

        // deliver due echoes and digest server output; returns after advancing virtual time to `until`
        // (or earlier when `stop` says so)
        async fn idle() { tokio::task::yield_now().await; }

        let push = |cs: &mut ClientState, rec: &mut RunRecord, wire_in_len: &mut usize, plain: &[u8], frame: Option<(i32, Vec<u8>)>| {
            let t = pipe.now_ms();
            let mut wire = plain.to_vec();
            if let Some(e) = cs.enc.as_mut() {
                for b in wire.chunks_mut(1) { e.encrypt_block_mut(GenericArray::from_mut_slice(b)); }
            }
            rec.raw_in.push((t, plain.to_vec()));
            rec.wire_in.push((t, wire.clone()));
            match frame { Some(f) => rec.inbox.push((t, Some(f))), None => rec.framed = false }
            *wire_in_len += wire.len();
            pipe.push(&wire);
        };

        let digest = |cs: &mut ClientState, rec: &mut RunRecord, echoes: &mut Vec<(u64, u64)>| {
            let chunks: Vec<((u64, Vec<u8>), u64)> = { let s = pipe.st.lock().unwrap(); s.out_log[cs.chunk_seen..].iter().cloned().zip(s.out_seq[cs.chunk_seen..].iter().cloned()).collect() };
            for ((t, c), sq) in chunks {
                cs.chunk_seen += 1;
                let mut p = c.clone();
                if let Some(d) = cs.dec.as_mut() {
                    for b in p.chunks_mut(1) { d.decrypt_block_mut(GenericArray::from_mut_slice(b)); }
                }
                cs.plain_out.extend_from_slice(&p);
                cs.chunk_ends.push((cs.plain_out.len(), t, sq));
                // parse complete frames
                loop {
                    let rest = &cs.plain_out[cs.parsed_upto..];
                    let Some((len, n1)) = get_varint(rest) else { break };
                    if rest.len() < n1 || (rest[n1 - 1] & 0x80 != 0 && n1 < 5) { break; }
                    if len <= 0 || len > 2_000_000 { rec.out_garbled = true; break; }
                    if rest.len() < n1 + len as usize { break; }
                    let inner = &rest[n1..n1 + len as usize];
                    let Some((id, n2)) = get_varint(inner) else { rec.out_garbled = true; break };
                    let body = inner[n2..].to_vec();
                    cs.parsed_upto += n1 + len as usize;
                    let end = cs.parsed_upto;
                    let (ft, fsq) = cs.chunk_ends.iter().find(|(l, _, _)| *l >= end).map(|x| (x.1, x.2)).unwrap_or((t, sq));
                    cs.frames.push((ft, id, body.clone()));
                    rec.sent.push((ft, id, body.clone()));
                    rec.sent_seq.push(fsq);
                    if !cs.in_config && id == 0x01 && body.len() > 10 {
                        // login EncryptionRequest: server id, public key, verify token, flag
                        let mut o = 0usize;
                        let rd = |o: &mut usize| -> Option<Vec<u8>> { let (l, n) = get_varint(&body[*o..])?; *o += n; let v = body.get(*o..*o + l as usize)?.to_vec(); *o += l as usize; Some(v) };
                        if let (Some(_sid), Some(pk), Some(tok)) = (rd(&mut o), rd(&mut o), rd(&mut o)) {
                            cs.last_enc_req = Some((pk, tok.clone()));
                            rec.token = tok;
                        }
                    }
                    if !cs.in_config && id == 0x02 && cs.dec.is_some() { cs.in_config = true; }
                    else if cs.in_config && id == 0x04 && body.len() == 8 {
                        let kid = u64::from_be_bytes(body[..8].try_into().unwrap());
                        rec.ka_ids.push(kid);
                        cs.ka_seen += 1;
                        match cs.ka.clone() {
                            KaPolicy::Prompt(d) => echoes.push((ft + d, kid)),
                            KaPolicy::Never => {}
                            KaPolicy::WrongId(d) => echoes.push((ft + d, kid.wrapping_add(1))),
                            KaPolicy::Duplicate(d) => { echoes.push((ft + d, kid)); echoes.push((ft + d + 11, kid)); }
                            KaPolicy::StopAfter(n, d) => { if cs.ka_echoed < n { echoes.push((ft + d, kid)); cs.ka_echoed += 1; } }
                        }
                    }
                }
            }
        };

        // advance virtual time until `target_ms` (absolute), delivering echoes on the way; stops early when `cond` holds
        macro_rules! advance_until {
            ($target:expr, $cond:expr) => {{
                loop {
                    idle().await;
                    digest(&mut cs, &mut rec, &mut echoes);
                    if $cond { break; }
                    let now = pipe.now_ms();
                    echoes.sort();
                    if let Some((due, kid)) = echoes.first().cloned() {
                        if due <= now {
                            echoes.remove(0);
                            if !is_done!() {
                                let f = frame_bytes(0x04, &kid.to_be_bytes());
                                push(&mut cs, &mut rec, &mut wire_in_len, &f, Some((0x04, kid.to_be_bytes().to_vec())));
                            }
                            continue;
                        }
                    }
                    // a write the transport refused for now: let it through a little later
                    let parked = pipe.st.lock().unwrap().wr_waker.is_some();
                    if parked && !sched_mode {
                        tokio::time::sleep(Duration::from_millis(2)).await;
                        pipe.wake_writer();
                        continue;
                    }
                    if now >= $target { break; }
                    let next_echo = echoes.first().map(|e| e.0).unwrap_or(u64::MAX);
                    let wake = $target.min(next_echo);
                    // sleep until the next interesting instant or until the server writes something
                    tokio::select! {
                        biased;
                        _ = pipe.out_notify.notified() => {},
                        _ = tokio::time::sleep(Duration::from_millis(wake - now)) => {},
                    }
                }
            }};
        }

        // glue mode: between the Encryption Response and the next client frame nothing is awaited
        let mut gluing = false;
        for act in sc.acts.iter() {
            if gluing && matches!(act, Act::Sleep(_) | Act::SleepUntil(_) | Act::RealSleep(_) | Act::WaitServer { .. }) { continue; }
            if matches!(act, Act::Frame { .. } | Act::Raw(_)) { gluing = false; }
            match act {
                Act::Sleep(ms) => { let t = pipe.now_ms() + ms; advance_until!(t, false); }
                Act::SleepUntil(t) => { let t = *t; if t > pipe.now_ms() { advance_until!(t, false); } }
                Act::RealSleep(ms) => { advance_until!(pipe.now_ms(), false); std::thread::sleep(Duration::from_millis(*ms)); }
                Act::Frame { id, body } => {
                    if is_done!() { continue; }
                    let f = frame_bytes(*id, body);
                    push(&mut cs, &mut rec, &mut wire_in_len, &f, Some((*id, body.clone())));
                    advance_until!(pipe.now_ms(), false);
                }
                Act::Raw(b) => {
                    if is_done!() { continue; }
                    push(&mut cs, &mut rec, &mut wire_in_len, b, None);
                    advance_until!(pipe.now_ms(), false);
                }
                Act::WaitServer { id } => {
                    let limit = pipe.now_ms() + 400_000;
                    let want = *id;
                    advance_until!(limit, {
                        let mut hit = false;
                        while cs.frame_cursor < cs.frames.len() { let f = &cs.frames[cs.frame_cursor]; cs.frame_cursor += 1; if f.1 == want { hit = true; break; } }
                        hit || is_done!()
                    });
                }
                Act::EncResponse { token, secret, key } => {
                    if is_done!() { continue; }
                    let (_pk, tok) = cs.last_enc_req.clone().unwrap_or((vec![], vec![0u8; 32]));
                    let ss: Vec<u8> = match secret { SecretMode::Good16 => rng.bytes(16), SecretMode::Len(n) => rng.bytes(*n) };
                    let tk: Vec<u8> = match token {
                        TokenMode::Echo => tok.clone(),
                        TokenMode::FlipBit(i) => { let mut t = tok.clone(); if !t.is_empty() { let k = i % (t.len() * 8); t[k / 8] ^= 1 << (k % 8); } t }
                        TokenMode::Stale(s) => s.clone(),
                        TokenMode::Empty => vec![],
                        TokenMode::Random(n) => rng.bytes(*n),
                    };
                    let (ct_ss, ct_tk) = match key {
                        KeyMode::ServerKey => (crypto::encrypt(&crypto::KEY_PAIR.1, &ss).unwrap(), crypto::encrypt(&crypto::KEY_PAIR.1, &tk).unwrap()),
                        KeyMode::OtherKey => (crypto::encrypt(&OTHER_KEY, &ss).unwrap(), crypto::encrypt(&OTHER_KEY, &tk).unwrap()),
                        KeyMode::Garbage(n) => (rng.bytes(*n), rng.bytes(*n)),
                    };
                    for ct in [&ct_ss, &ct_tk] {
                        rec.rsa.push((ct.clone(), crypto::decrypt(&crypto::KEY_PAIR.0, ct).ok()));
                    }
                    let mut body = Vec::new();
                    put_string(&mut body, &ct_ss);
                    put_string(&mut body, &ct_tk);
                    let f = frame_bytes(0x01, &body);
                    push(&mut cs, &mut rec, &mut wire_in_len, &f, Some((0x01, body)));
                    rec.shared_secret = Some(ss.clone());
                    rec.out_len_at_enc_response = Some(pipe.out_len());
                    if ss.len() == 16 && cs.last_enc_req.is_some() {
                        cs.enc = Some(Enc::new_from_slices(&ss, &ss).unwrap());
                        cs.dec = Some(Dec::new_from_slices(&ss, &ss).unwrap());
                        rec.enc_from_in_offset = Some(wire_in_len);
                        rec.enc_from_out_offset = Some(pipe.out_len());
                    }
                    if sc.glue { gluing = true; } else { advance_until!(pipe.now_ms(), false); }
                }
                Act::SetKa(p) => { cs.ka = p.clone(); }
                Act::Eof => {
                    if rec.eof_at.is_none() { let t = pipe.now_ms(); rec.eof_at = Some(t); rec.inbox.push((t, None)); pipe.push_eof(); }
                    advance_until!(pipe.now_ms(), false);
                }
                Act::WaitDone => { let limit = pipe.now_ms() + 600_000; advance_until!(limit, is_done!()); }
            }
        }
        // always end the stream and let the server finish
        if rec.eof_at.is_none() && !is_done!() { let t = pipe.now_ms(); rec.eof_at = Some(t); rec.inbox.push((t, None)); pipe.push_eof(); }
        let limit = pipe.now_ms() + 600_000;
        advance_until!(limit, is_done!());
        if !is_done!() { server.abort(); }
        digest(&mut cs, &mut rec, &mut echoes);
        let d = done.lock().unwrap().clone();
        match d {
            Some((term, t, panicked, maxreq)) => { rec.outcome = term; rec.end_ms = t; rec.panicked = panicked; rec.max_alloc = maxreq; }
            None => { rec.outcome = "OHang".into(); rec.end_ms = pipe.now_ms(); }
        }
        let l = log.lock().unwrap();
        rec.calls = l.calls.clone(); rec.call_seq = l.call_seq.clone(); rec.results = l.results.clone(); rec.loc = l.loc.clone();
        let s = pipe.st.lock().unwrap();
        rec.wire_out = s.out_log.clone(); rec.reads = s.reads.clone(); rec.write_calls = s.write_calls.clone(); rec.torn_pending_at = s.torn_pending_at; rec.eof_spin = s.eof_spin;
        rec
    })
}

/// catch a panic inside a future
async fn futures_catch<F: std::future::Future + std::panic::UnwindSafe>(f: F) -> Result<F::Output, ()> {
    let mut f = Box::pin(f);
    std::future::poll_fn(move |cx| {
        match std::panic::catch_unwind(AssertUnwindSafe(|| f.as_mut().poll(cx))) {
            Ok(std::task::Poll::Ready(v)) => std::task::Poll::Ready(Ok(v)),
            Ok(std::task::Poll::Pending) => std::task::Poll::Pending,
            Err(_) => std::task::Poll::Ready(Err(())),
        }
    }).await
}
