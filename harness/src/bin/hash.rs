//! C11 correspondence driver: runs the real `passage_adapters::authentication::minecraft_hash`
//! on seeded and on searched (server id, shared secret, encoded public key) triples, and the
//! num-bigint expression it uses on chosen digests, and prints one Gallina case per line.
//!
//! Family H: `(H id secret key out)` with out = minecraft_hash(id, secret, key).
//! Family D: `(D digest out)` with out = BigInt::from_signed_bytes_be(&digest).to_str_radix(16),
//!           the very expression of authentication/mod.rs applied to a digest of our choice.
use num_bigint::BigInt;
use passage_adapters::authentication::minecraft_hash;
use sha1::{Digest, Sha1};
use std::collections::BTreeMap;
use vh::*;

fn digest_of(id: &str, ss: &[u8], pk: &[u8]) -> [u8; 20] {
    // only used to SEARCH for interesting inputs and to describe the distribution; the
    // checker recomputes the digest with the Coq SHA-1
    let mut h = Sha1::new();
    h.update(id.as_bytes());
    h.update(ss);
    h.update(pk);
    h.finalize().into()
}

fn emit_h(id: &str, ss: &[u8], pk: &[u8], stats: &mut BTreeMap<&'static str, usize>) {
    let out = minecraft_hash(id, ss, pk);
    classify(&digest_of(id, ss, pk), stats);
    emit_case("H", &format!("(H {} {} {} {})", g_str(id), g_hex(ss), g_hex(pk), g_str(&out)));
}

fn emit_d(d: &[u8], stats: &mut BTreeMap<&'static str, usize>) {
    let out = BigInt::from_signed_bytes_be(d).to_str_radix(16);
    if d.len() == 20 { classify(d, stats); } else { *stats.entry("other_length").or_insert(0) += 1; }
    emit_case("D", &format!("(D {} {})", g_hex(d), g_str(&out)));
}

fn classify(d: &[u8], stats: &mut BTreeMap<&'static str, usize>) {
    let mut hit = |k: &'static str| *stats.entry(k).or_insert(0) += 1;
    if d[0] >= 0x80 { hit("negative"); } else { hit("non_negative"); }
    if d[0] == 0x00 { hit("first_byte_00"); }
    if d[0] == 0x00 && d[1] < 0x10 { hit("first_bytes_00_0x"); }
    if d[0] < 0x10 { hit("first_nibble_0"); }
    if d[0] == 0xff { hit("first_byte_ff"); }
    if d[0] == 0xff && d[1] >= 0xf0 { hit("first_bytes_ff_fx"); }
    if d[0] == 0x80 { hit("first_byte_80"); }
    if d[0] >= 0x80 && d[d.len() - 1] == 0 { hit("negative_last_byte_00"); }
    if d.iter().all(|b| *b == 0) { hit("zero"); }
}

fn gen_id(r: &mut Rng) -> String {
    match r.below(8) {
        0 => String::new(), // what vanilla servers send since 1.7
        1 => r.utf8(24),    // unicode
        2 => "a".repeat(*r.pick(&[19usize, 20, 55, 56, 63, 64, 65, 119, 120])), // SHA-1 padding boundaries
        3 => (0..r.below(21)).map(|_| (b'a' + r.below(26) as u8) as char).collect(),
        _ => (0..r.below(21)).map(|_| char::from_u32(0x20 + r.below(0x5f) as u32).unwrap()).collect(),
    }
}
fn gen_secret(r: &mut Rng) -> Vec<u8> {
    let n = match r.below(6) { 0 => 0, 1 | 2 | 3 => 16, 4 => *r.pick(&[1usize, 15, 17, 32, 64]), _ => r.below(40) as usize };
    r.bytes(n)
}
fn gen_key(r: &mut Rng) -> Vec<u8> {
    // 162 = DER SubjectPublicKeyInfo of a 1024-bit RSA key (what passage sends); 94 = 512-bit
    let n = match r.below(6) { 0 => 0, 1 | 2 => 162, 3 => *r.pick(&[1usize, 94, 161, 163, 200, 294]), _ => r.below(201) as usize };
    let mut k = r.bytes(n);
    if n >= 4 && r.chance(1, 2) { k[0] = 0x30; k[1] = 0x81; k[2] = (n - 3) as u8; } // DER-like header
    k
}

/// loop over a counter suffix until the digest satisfies `want`; the counter goes into the
/// server id, the secret or the key depending on `slot`
fn search(r: &mut Rng, slot: u64, want: &dyn Fn(&[u8; 20]) -> bool) -> (String, Vec<u8>, Vec<u8>, u64) {
    let (id0, ss0, pk0) = (gen_id(r), gen_secret(r), gen_key(r));
    let mut n: u64 = 0;
    loop {
        let (mut id, mut ss, mut pk) = (id0.clone(), ss0.clone(), pk0.clone());
        match slot % 3 {
            0 => id.push_str(&format!("{}", n)),
            1 => ss.extend_from_slice(&n.to_le_bytes()[..4]),
            _ => pk.extend_from_slice(&n.to_be_bytes()[4..]),
        }
        if want(&digest_of(&id, &ss, &pk)) { return (id, ss, pk, n + 1); }
        n += 1;
    }
}

fn main() {
    quiet_panics();
    let mut r = Rng::from_env();
    let scale: usize = std::env::var("VERIF_SCALE").ok().and_then(|s| s.parse().ok()).unwrap_or(1);
    let mut stats: BTreeMap<&'static str, usize> = BTreeMap::new();
    let mut n_h = 0usize;
    let mut n_d = 0usize;

    // ---- H: documented vectors (server id = name, empty secret and key) and their splits
    for name in ["Notch", "jeb_", "simon"] {
        emit_h(name, b"", b"", &mut stats);
        let (a, b) = name.split_at(2);
        emit_h(a, &b.as_bytes()[..1], &b.as_bytes()[1..], &mut stats);
        n_h += 2;
    }
    // server ids are hashed verbatim: surrounding / inner whitespace, case and control characters matter
    for id in [" justchunks ", "justchunks ", " justchunks", "\tid", "id\n", " ", "  ", "Just Chunks", "JUSTCHUNKS", "id\u{0}", "\u{feff}id"] {
        emit_h(id, b"verysecuresecret", b"key", &mut stats);
        n_h += 1;
    }
    emit_h("", b"", b"", &mut stats);
    emit_h("justchunks", b"verysecuresecret", b"verysecuresecret", &mut stats); // the crate's own test
    n_h += 2;

    // ---- H: seeded triples
    for _ in 0..40 * scale {
        let (id, ss, pk) = (gen_id(&mut r), gen_secret(&mut r), gen_key(&mut r));
        emit_h(&id, &ss, &pk, &mut stats);
        n_h += 1;
    }

    // ---- H: triples found by search, per digest class
    let classes: Vec<(&str, Box<dyn Fn(&[u8; 20]) -> bool>)> = vec![
        ("top_bit_set", Box::new(|d| d[0] >= 0x80)),
        ("first_nibble_0", Box::new(|d| d[0] < 0x10)),
        ("first_byte_00", Box::new(|d| d[0] == 0x00)),
        ("first_bytes_00_0x", Box::new(|d| d[0] == 0x00 && d[1] < 0x10)),
        ("first_byte_ff", Box::new(|d| d[0] == 0xff)),
        ("first_bytes_ff_fx", Box::new(|d| d[0] == 0xff && d[1] >= 0xf0)),
        ("first_byte_80", Box::new(|d| d[0] == 0x80)),
        ("negative_last_byte_00", Box::new(|d| d[0] >= 0x80 && d[19] == 0x00)),
        ("first_byte_7f", Box::new(|d| d[0] == 0x7f)),
        ("first_nibble_f", Box::new(|d| d[0] >= 0xf0)),
        ("first_bytes_00_8x", Box::new(|d| d[0] == 0x00 && d[1] >= 0x80)),   // positive: the zero byte carries the sign
        ("first_bytes_ff_0x", Box::new(|d| d[0] == 0xff && d[1] < 0x80)),    // negative: the ff byte carries the sign
    ];
    let mut tries_total: u64 = 0;
    for (ci, (name, want)) in classes.iter().enumerate() {
        let mut tries: u64 = 0;
        for k in 0..4 * scale {
            let (id, ss, pk, t) = search(&mut r, (ci + k) as u64, want.as_ref());
            tries += t;
            emit_h(&id, &ss, &pk, &mut stats);
            n_h += 1;
        }
        emit_note(&format!("search_{}", name), &format!("found={} sha1_evaluations={}", 4 * scale, tries));
        tries_total += tries;
    }

    // ---- D: the BigInt path on chosen digests
    let mut fixed: Vec<Vec<u8>> = Vec::new();
    let with = |first: &[u8], fill: u8, last: &[u8]| -> Vec<u8> {
        let mut v = vec![fill; 20];
        v[..first.len()].copy_from_slice(first);
        v[20 - last.len()..].copy_from_slice(last);
        v
    };
    fixed.push(with(&[0x80], 0x00, &[]));        // the two's complement edge -2^159
    fixed.push(with(&[], 0x00, &[]));            // zero
    fixed.push(with(&[], 0xff, &[]));            // -1
    fixed.push(with(&[], 0x00, &[0x01]));        // 1
    fixed.push(with(&[0x7f], 0xff, &[]));        // 2^159 - 1
    fixed.push(with(&[0x80], 0x00, &[0x01]));    // -2^159 + 1
    fixed.push(with(&[0x7f], 0x00, &[]));
    fixed.push(with(&[0xff], 0x00, &[]));        // -2^152: a leading zero nibble after negation
    fixed.push(with(&[0xf0], 0x00, &[]));
    fixed.push(with(&[0xff, 0xff], 0x00, &[]));
    fixed.push(with(&[], 0xff, &[0x00]));        // -256: carry through one byte
    fixed.push(with(&[], 0xff, &[0x00, 0x00, 0x00, 0x00, 0x00, 0x00, 0x00, 0x00])); // carry through a whole u64 limb
    fixed.push(with(&[], 0xff, &[0xfe, 0x00, 0x00, 0x00, 0x00, 0x00, 0x00, 0x00, 0x00]));
    fixed.push(with(&[0x00, 0x80], 0x00, &[]));  // positive although the second byte has its top bit set
    fixed.push(with(&[0x00], 0xff, &[]));
    fixed.push(with(&[0x0f], 0xff, &[]));
    fixed.push(with(&[0x00, 0x0f], 0xff, &[]));
    fixed.push(with(&[0x10], 0x00, &[]));
    fixed.push(with(&[], 0x00, &[0x0a]));
    fixed.push(with(&[], 0x00, &[0x10]));
    fixed.push(with(&[], 0x00, &[0x01, 0x00, 0x00, 0x00, 0x00, 0x00, 0x00, 0x00, 0x00])); // 2^64: second limb = 1
    fixed.push(with(&[], 0x00, &[0xff, 0xff, 0xff, 0xff, 0xff, 0xff, 0xff, 0xff]));       // 2^64 - 1: one full limb
    fixed.push(with(&[0x00, 0x00, 0x00, 0x01], 0x00, &[]));                               // 2^128: third limb = 1
    fixed.push(with(&[0x01, 0x23, 0x45, 0x67, 0x89, 0xab, 0xcd, 0xef], 0x5a, &[]));
    fixed.push(with(&[0xfe, 0xdc, 0xba, 0x98, 0x76, 0x54, 0x32, 0x10], 0xa5, &[]));
    for d in &fixed { emit_d(d, &mut stats); n_d += 1; }
    // leading k zero / 0xff bytes followed by random bytes, random trailing zeros
    for _ in 0..12 * scale {
        let k = r.below(20) as usize;
        let mut v = r.bytes(20);
        let fill = if r.chance(1, 2) { 0x00 } else { 0xff };
        for b in v.iter_mut().take(k) { *b = fill; }
        if r.chance(1, 3) { let t = r.below(12) as usize; for b in v.iter_mut().rev().take(t) { *b = 0; } }
        emit_d(&v, &mut stats);
        n_d += 1;
    }
    for _ in 0..20 * scale { let v = r.bytes(20); emit_d(&v, &mut stats); n_d += 1; }
    // other lengths (limb boundaries of the BigUint conversion); the theorem covers every length
    for n in [0usize, 1, 2, 7, 8, 9, 16, 17, 24, 32] {
        let mut v = r.bytes(n);
        if n > 0 && r.chance(1, 2) { v[0] |= 0x80; }
        emit_d(&v, &mut stats);
        n_d += 1;
    }
    emit_d(&[0x80], &mut stats);
    emit_d(&[0x00], &mut stats);
    emit_d(&[0xff, 0x00, 0x00, 0x00, 0x00, 0x00, 0x00, 0x00, 0x00], &mut stats);
    n_d += 3;

    emit_note("cases", &format!("H={} D={}", n_h, n_d));
    emit_note("search_total_sha1_evaluations", &format!("{}", tries_total));
    for (k, v) in &stats { emit_note(&format!("digest_class_{}", k), &format!("{}", v)); }
}
