//! C03 (localisation part): the real FixedLocalizationAdapter against Adapters/Locale.v.
use passage_adapters::localization::LocalizationAdapter;
use passage_adapters::FixedLocalizationAdapter;
use std::collections::HashMap;
use vh::*;

fn main() {
    let mut r = Rng::from_env();
    let scale: usize = std::env::var("VERIF_SCALE").ok().and_then(|s| s.parse().ok()).unwrap_or(1);
    let pool = ["en_us", "en", "de", "de_DE", "de_de", "zh", "zh_Hans", "zh_Hans_CN", "zh_CN_x", "fr", "fr_FR", "", "_", "de_", "_x", "a_b_c_d", "en_US", "EN"];
    let keys = ["disconnect_no_target", "disconnect_timeout", "other"];
    for _ in 0..(150 * scale) {
        let mut tables: HashMap<String, HashMap<String, String>> = HashMap::new();
        for l in pool.iter() {
            if r.chance(1, 3) {
                let mut m = HashMap::new();
                for k in keys.iter() { if r.chance(2, 3) { m.insert(k.to_string(), format!("{} [{}]", k, l)); } }
                tables.insert(l.to_string(), m);
            }
        }
        let dflt = r.pick(&pool).to_string();
        let loc: Option<String> = if r.chance(1, 6) { None } else { Some(r.pick(&pool).to_string()) };
        let key = r.pick(&keys).to_string();
        let ad = FixedLocalizationAdapter::new(dflt.clone(), tables.clone());
        let out = block_on(ad.localize(loc.as_deref(), &key, &[])).unwrap_or_else(|_| "<error>".into());
        let mut tl: Vec<_> = tables.iter().collect();
        tl.sort_by(|a, b| a.0.cmp(b.0));
        let gt = g_list(&tl.iter().map(|(l, m)| { let mut kv: Vec<_> = m.iter().collect(); kv.sort();
            format!("({}, {})", g_str(l), g_list(&kv.iter().map(|(k, v)| format!("({}, {})", g_str(k), g_str(v))).collect::<Vec<_>>())) }).collect::<Vec<_>>());
        emit_case("LOC", &format!("(LOC {} {} {} {} {})", gt, g_str(&dflt), g_opt(loc.as_ref().map(|l| g_str(l))), g_str(&key), g_str(&out)));
    }
}
