//! C13 correspondence driver for passage-protocol's RateLimiter: replays seeded arrival
//! histories on the real `RateLimiter<u64>` under a paused tokio clock and prints one
//! Gallina `c13case` per history:
//!   C13 limit duration_ns [(key, time_ns); ...] [decisions] [tracked keys after each attempt,
//!   sorted] [(key, decisions of that key's attempts replayed alone on a fresh limiter)]
use passage_protocol::rate_limiter::RateLimiter;
use std::collections::BTreeSet;
use tokio::time::{Duration, Instant};
use vh::*;

struct Obs {
    times: Vec<u64>,
    dec: Vec<bool>,
    trk: Vec<Vec<u64>>,
}

/// run one history (key, gap before the attempt in ns) on a fresh limiter created at time 0
fn run_history(limit: usize, dur_ns: u64, hist: &[(u64, u64)]) -> Obs {
    let rt = tokio::runtime::Builder::new_current_thread()
        .enable_all()
        .start_paused(true)
        .build()
        .unwrap();
    rt.block_on(async {
        let start = Instant::now();
        let mut rl: RateLimiter<u64> = RateLimiter::new(Duration::from_nanos(dur_ns), limit);
        let mut o = Obs { times: vec![], dec: vec![], trk: vec![] };
        for (k, gap) in hist {
            if *gap > 0 {
                tokio::time::advance(Duration::from_nanos(*gap)).await;
            }
            let t = Instant::now().duration_since(start).as_nanos() as u64;
            let ok = rl.enqueue(*k);
            o.times.push(t);
            o.dec.push(ok);
            let mut ks = rl.verif_keys();
            ks.sort();
            o.trk.push(ks);
        }
        o
    })
}

#[derive(Default)]
struct Stats { admitted: usize, attempts: usize, removals: usize, comebacks: usize, hist_with_cleanup: usize }

fn emit(st: &mut Stats, family: &str, limit: usize, dur_ns: u64, hist: &[(u64, u64)]) {
    let o = run_history(limit, dur_ns, hist);
    // the paused clock must have advanced by exactly the requested gaps
    let mut acc = 0u64;
    for (i, (_, gap)) in hist.iter().enumerate() {
        acc += gap;
        assert_eq!(acc, o.times[i], "paused clock drifted");
    }
    let keys: BTreeSet<u64> = hist.iter().map(|(k, _)| *k).collect();
    let mut solo = vec![];
    for k in &keys {
        // the same attempts of k at the same absolute times, all other keys deleted
        let mut sub = vec![];
        let mut prev = 0u64;
        for (i, (k2, _)) in hist.iter().enumerate() {
            if k2 == k {
                sub.push((*k, o.times[i] - prev));
                prev = o.times[i];
            }
        }
        let so = run_history(limit, dur_ns, &sub);
        solo.push(format!("({}, {})", k, g_list(&so.dec.iter().map(|b| g_bool(*b)).collect::<Vec<_>>())));
    }
    // the same history with every rejected attempt made a second time at the same instant
    let mut dh = vec![];
    let mut is_rep = vec![];
    for (i, (k, gap)) in hist.iter().enumerate() {
        dh.push((*k, *gap)); is_rep.push(false);
        if !o.dec[i] { dh.push((*k, 0)); is_rep.push(true); }
    }
    let dobs = run_history(limit, dur_ns, &dh);
    let dup: Vec<String> = dobs.dec.iter().zip(&is_rep).filter(|(_, r)| !**r).map(|(b, _)| g_bool(*b)).collect();
    let dupr: Vec<String> = dobs.dec.iter().zip(&is_rep).filter(|(_, r)| **r).map(|(b, _)| g_bool(*b)).collect();
    let h: Vec<String> = hist.iter().zip(&o.times).map(|((k, _), t)| format!("({}, {})", k, t)).collect();
    let d: Vec<String> = o.dec.iter().map(|b| g_bool(*b)).collect();
    let t: Vec<String> = o.trk.iter().map(|ks| g_list(&ks.iter().map(|k| k.to_string()).collect::<Vec<_>>())).collect();
    emit_case(family, &format!("(C13 {} {} {} {} {} {} {} {})", limit, dur_ns, g_list(&h), g_list(&d), g_list(&t), g_list(&solo), g_list(&dup), g_list(&dupr)));
    st.admitted += o.dec.iter().filter(|b| **b).count();
    st.attempts += o.dec.len();
    // keys dropped by the cleanup, and dropped keys that attempt again later
    let mut removed: BTreeSet<u64> = BTreeSet::new();
    let mut any = false;
    for i in 0..hist.len() {
        if removed.remove(&hist[i].0) { st.comebacks += 1; }
        if i > 0 {
            for k in &o.trk[i - 1] {
                if !o.trk[i].contains(k) { removed.insert(*k); st.removals += 1; any = true; }
            }
        }
    }
    if any { st.hist_with_cleanup += 1; }
}

const LIMITS: [usize; 4] = [1, 2, 3, 60];
const DURS: [u64; 4] = [1_000_000, 1_000_000_000, 1_500_000_000, 10_000_000_000];

fn gen_gap(r: &mut Rng, d: u64) -> u64 {
    match r.below(14) {
        0 | 1 | 2 => 0,
        3 => 1,
        4 => d - 1,
        5 => d,
        6 => d + 1,
        7 => 2 * d - 1,
        8 => 2 * d,
        9 => 2 * d + 1,
        10 => 4 * d,
        11 => r.below(d / 4 + 1),          // dense: several attempts per window
        12 => r.below(d + 1),
        _ => r.below(3 * d + 1),
    }
}

fn main() {
    let mut r = Rng::from_env();
    let scale: usize = std::env::var("VERIF_SCALE").ok().and_then(|s| s.parse().ok()).unwrap_or(1);
    let mut st = Stats::default();
    const S: u64 = 1_000_000_000;

    // BND: the boundary history (limit 3, 10 s): three admissions, a rejection, a roll exactly at
    // the window boundary (value = 3 -> rejected), 1 ns later (1 - 1e-10 rounds to 1.0f32 ->
    // still rejected although exact arithmetic would admit), then 3 s into the window
    let d = 10 * S;
    emit(&mut st, "BND", 3, d, &[(0, 0), (0, 0), (0, 0), (0, 0), (0, d), (0, 1), (0, 3 * S - 1)]);
    // the same with a bystander key and the cleanup firing in between
    emit(&mut st, "BND", 3, d, &[(0, 0), (9, 0), (0, 0), (0, 0), (0, 0), (0, d), (0, 1), (9, d), (0, d), (9, 2 * d), (0, 0)]);
    // 2 * limit admissions within one duration: 3 at the very end of one window, 3 at the very
    // end of the next (gaps: 0,0,0 | 10 s rejected | 19.9 s x3 | 20 s rejected | 29.9 s x3)
    emit(&mut st, "BND", 3, d, &[(0, 0), (0, 0), (0, 0), (0, d), (0, d - S / 10), (0, 0), (0, 0), (0, S / 10), (0, d - S / 10), (0, 0), (0, 0)]);
    // a rejected attempt moves the window: [0, 10 s (rejected), 19 s] admits at 19 s, [0, 19 s] does not
    emit(&mut st, "BND", 1, d, &[(0, 0), (0, d), (0, 9 * S)]);
    emit(&mut st, "BND", 1, d, &[(0, 0), (0, 19 * S)]);
    // the 4 * duration bound on tracked keys is tight: key 1 at 1 ns survives the cleanup at 2 s
    // and is still tracked after the admitted attempt at 4 s - 1 ns
    emit(&mut st, "BND", 1, S, &[(1, 1), (2, 2 * S - 1), (3, 2 * S - 1)]);
    // rejections do not trigger the cleanup: key 1 (only attempt at 0) is still tracked after the
    // rejected attempt of key 2 at 4 * duration + 100 ns
    emit(&mut st, "BND", 1, d, &[(1, 0), (2, 2 * d - 1), (2, 2 * d - 1), (2, 102)]);
    // a key dropped by the cleanup comes back and is treated as new
    emit(&mut st, "BND", 1, S, &[(7, 0), (3, 0), (7, S / 2), (3, 2 * S - S / 2), (5, S / 10), (7, 2 * S), (7, 1)]);

    // RND: seeded histories over 1-6 keys
    let n_hist = 200 * scale;
    for i in 0..n_hist {
        let limit = LIMITS[i % 4];
        let dur = DURS[(i / 4) % 4];
        let nkeys = 1 + r.below(6);
        let n = if limit == 60 { 40 + r.below(21) } else { 10 + r.below(51) } as usize;
        let style = r.below(4);
        let mut hist = vec![];
        for _ in 0..n {
            let k = if style == 0 { 1 } else { 1 + r.below(nkeys) };
            let gap = match style {
                // bursts: mostly zero gaps so that the limit is reached
                1 => if r.chance(3, 4) { 0 } else { gen_gap(&mut r, dur) },
                // slow drip: gaps around the window length
                2 => *r.pick(&[dur - 1, dur, dur + 1, dur / 2, 2 * dur - 1, 2 * dur, 0, 1]),
                _ => gen_gap(&mut r, dur),
            };
            hist.push((k, gap));
        }
        emit(&mut st, "RND", limit, dur, &hist);
    }
    emit_note("histories", &format!("{} RND + 8 BND; limits {:?}; durations(ns) {:?}; 1-6 keys; gaps {{0,1,d-1,d,d+1,2d-1,2d,2d+1,4d,random}}", n_hist, LIMITS, DURS));
    emit_note("admitted", &format!("{} of {} attempts", st.admitted, st.attempts));
    emit_note("cleanup", &format!("{} histories in which the cleanup dropped a key; {} keys dropped; {} dropped keys attempted again", st.hist_with_cleanup, st.removals, st.comebacks));

    // SAT: n attempts of one key at one instant on a fresh limiter.  Control bursts with small
    // limits are also evaluated by the model.  Known finding: with limit > 2^24 the f32 counter
    // stops at 2^24 (2^24 + 1 rounds back to 2^24), so the limiter admits without bound.
    // Evaluating 2^24 model steps in Coq would take hours (about 1 ms each), so for that burst
    // the checker only applies the monitor (admitted <= limit); the Coq side proves the
    // saturation step as C13_saturates from the state current = 2^24.  A thorough run that
    // wants the model side too has to replay 2^24 + k steps: generate `key_run` over
    // `repeat 0 n` in a dedicated coqc job (estimated 5 h); not started from here.
    let burst = |limit: usize, dur: Duration, n: usize| -> usize {
        let rt = tokio::runtime::Builder::new_current_thread().enable_all().start_paused(true).build().unwrap();
        rt.block_on(async {
            let mut rl: RateLimiter<u64> = RateLimiter::new(dur, limit);
            let mut a = 0usize;
            for _ in 0..n { if rl.enqueue(1) { a += 1; } }
            a
        })
    };
    for (limit, dur_ns, n) in [(1usize, 1_000_000u64, 5usize), (60, S, 100), (3, 10 * S, 2), (1000, 1_500_000_000, 1500)] {
        let a = burst(limit, Duration::from_nanos(dur_ns), n);
        emit_case("SAT", &format!("(SAT {} {} {} {})", limit, dur_ns, n, a));
    }
    // FLOOD: more distinct keys than any table cap a maintainer might pick, then a fresh key bursts
    for (limit, nkeys, attempts) in [(3usize, 70_000u64, 10usize), (1, 140_000, 4)] {
        let rt = tokio::runtime::Builder::new_current_thread().enable_all().start_paused(true).build().unwrap();
        let (crowd, adm) = rt.block_on(async {
            let mut rl: RateLimiter<u64> = RateLimiter::new(Duration::from_secs(10), limit);
            let mut crowd = 0u64;
            for k in 0..nkeys { if rl.enqueue(k + 1_000) { crowd += 1; } }
            let mut a = 0usize;
            for _ in 0..attempts { if rl.enqueue(7) { a += 1; } }
            (crowd, a)
        });
        emit_case("SAT", &format!("(FLOOD {} {} {} {} {} {})", limit, 10 * S, nkeys, crowd, attempts, adm));
    }
    {
        let limit: usize = (1 << 24) + 2;
        let n = limit + 1000;
        let a = burst(limit, Duration::from_secs(10), n);
        emit_case("SAT", &format!("(SAT {} {} {} {})", limit, 10 * S, n, a));
        emit_note("saturation", &format!("limit {} attempts {} at one instant: admitted {} (a correct limiter admits {})", limit, n, a, limit));
    }
}
