//! C05 correspondence driver: polls the real CipherStream by hand (no-op waker) over a
//! scripted inner transport and records what reached the wire / the reader.
use passage_protocol::crypto::stream::{Aes128Cfb8Dec, Aes128Cfb8Enc, CipherStream, create_ciphers};
use std::collections::VecDeque;
use std::pin::Pin;
use std::task::{Context, Poll, Waker};
use tokio::io::{AsyncRead, AsyncWrite, ReadBuf};
use vh::*;

#[derive(Clone, Debug)]
enum WResp { Pending, Ready(usize), Err }
#[derive(Clone, Debug)]
enum RResp { Pending, Data(Vec<u8>), Err }

struct Mock {
    wscript: VecDeque<WResp>,
    rscript: VecDeque<RResp>,
    wire: std::sync::Arc<std::sync::Mutex<Vec<u8>>>,
}
impl AsyncWrite for Mock {
    fn poll_write(mut self: Pin<&mut Self>, _cx: &mut Context<'_>, buf: &[u8]) -> Poll<std::io::Result<usize>> {
        match self.wscript.pop_front().unwrap_or(WResp::Ready(usize::MAX)) {
            WResp::Pending => Poll::Pending,
            WResp::Err => Poll::Ready(Err(std::io::Error::other("scripted"))),
            WResp::Ready(n) => { let n = n.min(buf.len()); self.wire.lock().unwrap().extend_from_slice(&buf[..n]); Poll::Ready(Ok(n)) }
        }
    }
    fn poll_flush(self: Pin<&mut Self>, _cx: &mut Context<'_>) -> Poll<std::io::Result<()>> { Poll::Ready(Ok(())) }
    fn poll_shutdown(self: Pin<&mut Self>, _cx: &mut Context<'_>) -> Poll<std::io::Result<()>> { Poll::Ready(Ok(())) }
}
impl AsyncRead for Mock {
    fn poll_read(mut self: Pin<&mut Self>, _cx: &mut Context<'_>, buf: &mut ReadBuf<'_>) -> Poll<std::io::Result<()>> {
        match self.rscript.pop_front().unwrap_or(RResp::Pending) {
            RResp::Pending => Poll::Pending,
            RResp::Err => Poll::Ready(Err(std::io::Error::other("scripted"))),
            RResp::Data(d) => { buf.put_slice(&d); Poll::Ready(Ok(())) }
        }
    }
}

type Cs = CipherStream<Mock, Aes128Cfb8Enc, Aes128Cfb8Dec>;

fn g_wops(ops: &[(Vec<u8>, WResp)]) -> String {
    g_list(&ops.iter().map(|(b, r)| format!("({}, {})", g_hex(b), match r {
        WResp::Pending => "WPending".to_string(), WResp::Err => "WErr".to_string(),
        WResp::Ready(n) => format!("WReady {}", (*n).min(1_000_000)) })).collect::<Vec<_>>())
}
fn g_results(rs: &[Option<usize>]) -> String {
    g_list(&rs.iter().map(|r| match r { Some(n) => format!("Some {}", n), None => "None".into() }).collect::<Vec<_>>())
}

fn gen_wops(r: &mut Rng) -> Vec<(Vec<u8>, WResp)> {
    // emulate write_all-like callers (retry the unaccepted suffix) and free-form callers
    let mut ops = vec![];
    let n = 1 + r.below(6) as usize;
    for _ in 0..n {
        // mostly small; now and then as large as the largest frame a connection may send, and around 4 KiB
        let len = match r.below(14) { 0 | 7 => 0, 1 | 8 => 1, 2 | 9 => 16, 3 | 10 => 17, 4 | 11 => 40 + r.below(260) as usize,
                                      12 => *r.pick(&[4095usize, 4096, 4097, 6000, 8192, 10_002]), _ => r.below(40) as usize };
        let mut rest = r.bytes(len);
        let mut guard = 0;
        loop {
            guard += 1;
            let resp = match r.below(7) {
                0 | 1 => WResp::Pending,
                2 => WResp::Ready(1),
                3 => WResp::Ready(r.below(rest.len() as u64 + 1) as usize),
                4 => if r.chance(1, 6) { WResp::Err } else { WResp::Ready(usize::MAX) },
                _ => WResp::Ready(usize::MAX),
            };
            let acc = match &resp { WResp::Ready(k) => (*k).min(rest.len()), _ => 0 };
            let after_pending_other_buffer = matches!(resp, WResp::Pending) && r.chance(1, 3);
            ops.push((rest.clone(), resp));
            if after_pending_other_buffer {
                // an abandoned write: the caller comes back with other bytes, often of the same length
                let k = if r.chance(2, 3) { rest.len().max(1) } else { 1 + r.below(20) as usize };
                rest = r.bytes(k);
            }
            else { rest = rest[acc..].to_vec(); }
            if rest.is_empty() || guard > 12 { break; }
        }
    }
    ops
}

fn run_writes(cs: &mut Cs, ops: &[(Vec<u8>, WResp)]) -> Vec<Option<usize>> {
    let waker = Waker::noop();
    let mut cx = Context::from_waker(&waker);
    let mut results = vec![];
    for (i, (buf, _)) in ops.iter().enumerate() {
        // every third call goes through poll_write_vectored with the same bytes as the first non-empty slice
        // (tokio's default implementation writes exactly that slice): same meaning, different entry point
        let res = if i % 3 == 2 && !buf.is_empty() {
            let extra = [0xEEu8; 7];
            let slices = [std::io::IoSlice::new(&[]), std::io::IoSlice::new(buf), std::io::IoSlice::new(&extra)];
            Pin::new(&mut *cs).poll_write_vectored(&mut cx, &slices)
        } else { Pin::new(&mut *cs).poll_write(&mut cx, buf) };
        match res {
            Poll::Ready(Ok(n)) => results.push(Some(n)),
            _ => results.push(None),
        }
    }
    results
}

fn main() {
    let mut r = Rng::from_env();
    let scale: usize = std::env::var("VERIF_SCALE").ok().and_then(|s| s.parse().ok()).unwrap_or(1);
    // ---- writes
    for i in 0..(60 * scale) {
        let key = r.bytes(16);
        let on = i % 5 != 0;
        let ops = gen_wops(&mut r);
        let wire_h = std::sync::Arc::new(std::sync::Mutex::new(Vec::<u8>::new()));
        let mock = Mock { wscript: ops.iter().map(|o| o.1.clone()).collect(), rscript: VecDeque::new(), wire: wire_h.clone() };
        let mut cs: Cs = CipherStream::from_stream(mock);
        if on { let (e, d) = create_ciphers(&key).unwrap(); cs.set_encryption(Some(e), Some(d)); }
        let results = run_writes(&mut cs, &ops);
        let wire = wire_h.lock().unwrap().clone();
        emit_case("WR", &format!("(WR {} {} {} {} {})", g_hex(&key), g_bool(on), g_wops(&ops), g_hex(&wire), g_results(&results)));
    }
    // the fixed witnesses of the repaired defect: a partial accept / a Pending in the middle of a buffer
    for ops in [vec![(vec![1u8, 2], WResp::Ready(1)), (vec![2u8], WResp::Ready(1))],
                vec![(vec![9u8; 20], WResp::Pending), (vec![9u8; 20], WResp::Ready(usize::MAX))],
                vec![(vec![1u8; 12], WResp::Pending), (vec![2u8; 12], WResp::Ready(usize::MAX)), (vec![3u8; 12], WResp::Ready(usize::MAX))]] {
        let key = vec![0x42u8; 16];
        let wire_h = std::sync::Arc::new(std::sync::Mutex::new(Vec::<u8>::new()));
        let mock = Mock { wscript: ops.iter().map(|o| o.1.clone()).collect(), rscript: VecDeque::new(), wire: wire_h.clone() };
        let mut cs: Cs = CipherStream::from_stream(mock);
        let (e, d) = create_ciphers(&key).unwrap(); cs.set_encryption(Some(e), Some(d));
        let results = run_writes(&mut cs, &ops);
        let wire = wire_h.lock().unwrap().clone();
        emit_case("WR", &format!("(WR {} true {} {} {})", g_hex(&key), g_wops(&ops), g_hex(&wire), g_results(&results)));
    }
    // ---- switch in mid-connection
    for _ in 0..(20 * scale) {
        let key = r.bytes(16);
        let ops1 = gen_wops(&mut r);
        let ops2 = gen_wops(&mut r);
        let all: Vec<_> = ops1.iter().chain(ops2.iter()).cloned().collect();
        let wire_h = std::sync::Arc::new(std::sync::Mutex::new(Vec::<u8>::new()));
        let mock = Mock { wscript: all.iter().map(|o| o.1.clone()).collect(), rscript: VecDeque::new(), wire: wire_h.clone() };
        let mut cs: Cs = CipherStream::from_stream(mock);
        let mut results = run_writes(&mut cs, &ops1);
        let (e, d) = create_ciphers(&key).unwrap(); cs.set_encryption(Some(e), Some(d));
        results.extend(run_writes(&mut cs, &ops2));
        let wire = wire_h.lock().unwrap().clone();
        emit_case("SW", &format!("(SW {} {} {} {} {})", g_hex(&key), g_wops(&ops1), g_wops(&ops2), g_hex(&wire), g_results(&results)));
    }
    // ---- reads
    for i in 0..(60 * scale) {
        let key = r.bytes(16);
        let on = i % 5 != 0;
        let n = 1 + r.below(8) as usize;
        let mut ops = vec![];
        for _ in 0..n {
            ops.push(match r.below(8) {
                0 | 1 => RResp::Pending,
                2 => RResp::Err,
                3 => RResp::Data(vec![]),
                _ => { let k = *r.pick(&[1usize, 2, 15, 16, 17, 33, 64]); RResp::Data(r.bytes(k)) }
            });
        }
        let wire_h = std::sync::Arc::new(std::sync::Mutex::new(Vec::<u8>::new()));
        let mock = Mock { wscript: VecDeque::new(), rscript: ops.iter().cloned().collect(), wire: wire_h.clone() };
        let mut cs: Cs = CipherStream::from_stream(mock);
        if on { let (e, d) = create_ciphers(&key).unwrap(); cs.set_encryption(Some(e), Some(d)); }
        let waker = Waker::noop();
        let mut cx = Context::from_waker(&waker);
        let mut delivered = vec![];
        // one reader buffer reused across polls with a non-empty already-filled prefix,
        // as read_exact / read_to_end do
        let mut storage = vec![0u8; 1024];
        let mut filled = 0usize;
        for _ in 0..ops.len() {
            let mut rb = ReadBuf::new(&mut storage);
            rb.set_filled(filled);
            let before = rb.filled().len();
            let res = Pin::new(&mut cs).poll_read(&mut cx, &mut rb);
            // the AsyncRead contract: only a read that returns Ready(Ok) has delivered anything - a caller that builds a
            // fresh ReadBuf for every poll (AsyncReadExt::read) never sees what a Pending / failed poll left behind
            if !matches!(res, Poll::Ready(Ok(()))) { continue; }
            let after = rb.filled().len();
            delivered.extend_from_slice(&rb.filled()[before..after]);
            filled = after;
            if filled > 800 { filled = 0; }
        }
        let gops = g_list(&ops.iter().map(|o| match o { RResp::Pending => "RPending".to_string(), RResp::Err => "RErr".to_string(), RResp::Data(d) => format!("RData {}", g_hex(d)) }).collect::<Vec<_>>());
        emit_case("RD", &format!("(RD {} {} {} {})", g_hex(&key), g_bool(on), gops, g_hex(&delivered)));
    }
}

