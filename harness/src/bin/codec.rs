//! C09/C04 correspondence driver for passage-packets: encodes and decodes every packet
//! type with the real code on seeded, boundary-dense values and on mutated encodings,
//! and prints one Gallina case per line.
use passage_packets::configuration::clientbound as ccb;
use passage_packets::configuration::serverbound as csb;
use passage_packets::handshake::serverbound as hsb;
use passage_packets::login::clientbound as lcb;
use passage_packets::login::serverbound as lsb;
use passage_packets::status::clientbound as scb;
use passage_packets::status::serverbound as ssb;
use passage_packets::{
    AsyncReadPacket, AsyncWritePacket, ChatMode, DisplayedSkinParts, Error, MainHand, ParticleStatus,
    ReadPacket, ResourcePackResult, State, WritePacket,
};
use std::io::Cursor;
use std::panic::{catch_unwind, AssertUnwindSafe};
use uuid::Uuid;
use vh::*;

#[global_allocator]
static ALLOC: CountingAlloc = CountingAlloc;

trait Pk: ReadPacket + WritePacket + Sized + PartialEq + std::fmt::Debug + Send + Sync {
    const IDENT: &'static str;
    fn gen_val(r: &mut Rng) -> Self;
    fn fv(&self) -> Vec<String>;
}

fn vz<T: Into<i128>>(v: T) -> String { format!("VZ {}", g_z(v)) }
fn vb(b: &[u8]) -> String { format!("VB {}", g_hex(b)) }
fn vbool(b: bool) -> String { format!("VBool {}", g_bool(b)) }
fn vuuid(u: &Uuid) -> String { format!("VZ {}", u.as_u128()) }
fn vopt(o: Option<String>) -> String {
    match o { Some(s) => format!("VOpt (Some ({}))", s), None => "VOpt None".into() }
}

static STRINGS: std::sync::atomic::AtomicUsize = std::sync::atomic::AtomicUsize::new(0);
fn gen_string(r: &mut Rng) -> String {
    // every 40th string is within the protocol's 32767 UTF-16 units but beyond 32767 BYTES of UTF-8
    let k = STRINGS.fetch_add(1, std::sync::atomic::Ordering::Relaxed);
    if k % 40 == 39 { return match (k / 40) % 3 { 0 => "\u{e4}".repeat(16_384), 1 => "\u{20ac}".repeat(10_923), _ => "a".repeat(32_767) }; }
    match r.below(10) {
        0 => String::new(),
        1 => r.utf8(300),
        // shapes a "normalising" reader or writer would alter: a trailing root dot, surrounding blanks, upper case, a NUL
        8 => r.pick(&["play.example.com.", ".", " padded ", "MiXeD.Example.ORG", "host\u{0}FML3\u{0}", "tab\tend\n", "::ffff:10.1.2.3"]).to_string(),
        9 => format!("{}.", r.utf8(12)),
        2 => "a".repeat(*r.pick(&[127usize, 128, 129, 255, 256, 16383, 16384])),
        _ => r.utf8(20),
    }
}
fn gen_text(r: &mut Rng) -> String {
    let mut s = gen_string(r);
    if s.starts_with('{') { s.insert(0, ' '); }
    while s.len() > 65535 { s.pop(); }
    s
}
fn gen_bytes(r: &mut Rng) -> Vec<u8> {
    let n = match r.below(6) { 0 => 0, 1 => *r.pick(&[1usize, 127, 128, 129, 300]), _ => r.below(40) as usize };
    r.bytes(n)
}
fn gen_uuid(r: &mut Rng) -> Uuid {
    match r.below(5) {
        0 => Uuid::from_u128(0),
        1 => Uuid::from_u128(u128::MAX),
        2 => Uuid::from_u128(1u128 << 127),
        _ => Uuid::from_u128(((r.next() as u128) << 64) | r.next() as u128),
    }
}
fn gen_u64(r: &mut Rng) -> u64 { r.boundary(0, u64::MAX as i128) as u64 }
fn gen_i32(r: &mut Rng) -> i32 { r.boundary(i32::MIN as i128, i32::MAX as i128) as i32 }

const STATES: [State; 3] = [State::Status, State::Login, State::Transfer];
const CHAT: [ChatMode; 3] = [ChatMode::Enabled, ChatMode::CommandsOnly, ChatMode::Hidden];
const HAND: [MainHand; 2] = [MainHand::Left, MainHand::Right];
const PART: [ParticleStatus; 3] = [ParticleStatus::All, ParticleStatus::Decreased, ParticleStatus::Minimal];
const RPR: [ResourcePackResult; 8] = [
    ResourcePackResult::Success, ResourcePackResult::Declined, ResourcePackResult::DownloadFailed,
    ResourcePackResult::Accepted, ResourcePackResult::Downloaded, ResourcePackResult::InvalidUrl,
    ResourcePackResult::ReloadFailed, ResourcePackResult::Discorded,
];
fn idx<T: PartialEq>(xs: &[T], x: &T) -> i128 { xs.iter().position(|y| y == x).unwrap() as i128 }

macro_rules! unit_pk {
    ($t:ty, $id:expr, $ctor:expr) => {
        impl Pk for $t {
            const IDENT: &'static str = $id;
            fn gen_val(_r: &mut Rng) -> Self { $ctor }
            fn fv(&self) -> Vec<String> { vec![] }
        }
    };
}

impl Pk for hsb::HandshakePacket {
    const IDENT: &'static str = "handshake_sb_HandshakePacket";
    fn gen_val(r: &mut Rng) -> Self {
        Self { protocol_version: gen_i32(r), server_address: gen_string(r),
               server_port: r.boundary(0, 65535) as u16, next_state: *r.pick(&STATES) }
    }
    fn fv(&self) -> Vec<String> {
        vec![vz(self.protocol_version), vb(self.server_address.as_bytes()), vz(self.server_port), vz(idx(&STATES, &self.next_state))]
    }
}
impl Pk for scb::StatusResponsePacket {
    const IDENT: &'static str = "status_cb_StatusResponsePacket";
    fn gen_val(r: &mut Rng) -> Self { Self { body: gen_string(r) } }
    fn fv(&self) -> Vec<String> { vec![vb(self.body.as_bytes())] }
}
impl Pk for scb::PongPacket {
    const IDENT: &'static str = "status_cb_PongPacket";
    fn gen_val(r: &mut Rng) -> Self { Self { payload: gen_u64(r) } }
    fn fv(&self) -> Vec<String> { vec![vz(self.payload)] }
}
unit_pk!(ssb::StatusRequestPacket, "status_sb_StatusRequestPacket", ssb::StatusRequestPacket);
impl Pk for ssb::PingPacket {
    const IDENT: &'static str = "status_sb_PingPacket";
    fn gen_val(r: &mut Rng) -> Self { Self { payload: gen_u64(r) } }
    fn fv(&self) -> Vec<String> { vec![vz(self.payload)] }
}
impl Pk for lcb::DisconnectPacket {
    const IDENT: &'static str = "login_cb_DisconnectPacket";
    fn gen_val(r: &mut Rng) -> Self { Self { reason: gen_string(r) } }
    fn fv(&self) -> Vec<String> { vec![vb(self.reason.as_bytes())] }
}
impl Pk for lcb::EncryptionRequestPacket {
    const IDENT: &'static str = "login_cb_EncryptionRequestPacket";
    fn gen_val(r: &mut Rng) -> Self {
        let mut t = [0u8; 32];
        t.copy_from_slice(&r.bytes(32));
        Self { server_id: gen_string(r), public_key: gen_bytes(r), verify_token: t, should_authenticate: r.chance(1, 2) }
    }
    fn fv(&self) -> Vec<String> {
        vec![vb(self.server_id.as_bytes()), vb(&self.public_key), vb(&self.verify_token), vbool(self.should_authenticate)]
    }
}
impl Pk for lcb::LoginSuccessPacket {
    const IDENT: &'static str = "login_cb_LoginSuccessPacket";
    fn gen_val(r: &mut Rng) -> Self { Self { user_id: gen_uuid(r), user_name: gen_string(r) } }
    fn fv(&self) -> Vec<String> { vec![vuuid(&self.user_id), vb(self.user_name.as_bytes()), "VUnit".into()] }
}
unit_pk!(lcb::SetCompressionPacket, "login_cb_SetCompressionPacket", lcb::SetCompressionPacket);
unit_pk!(lcb::LoginPluginRequestPacket, "login_cb_LoginPluginRequestPacket", lcb::LoginPluginRequestPacket);
impl Pk for lcb::CookieRequestPacket {
    const IDENT: &'static str = "login_cb_CookieRequestPacket";
    fn gen_val(r: &mut Rng) -> Self { Self { key: gen_string(r) } }
    fn fv(&self) -> Vec<String> { vec![vb(self.key.as_bytes())] }
}
impl Pk for lsb::LoginStartPacket {
    const IDENT: &'static str = "login_sb_LoginStartPacket";
    fn gen_val(r: &mut Rng) -> Self { Self { user_name: gen_string(r), user_id: gen_uuid(r) } }
    fn fv(&self) -> Vec<String> { vec![vb(self.user_name.as_bytes()), vuuid(&self.user_id)] }
}
impl Pk for lsb::EncryptionResponsePacket {
    const IDENT: &'static str = "login_sb_EncryptionResponsePacket";
    fn gen_val(r: &mut Rng) -> Self { Self { shared_secret: gen_bytes(r), verify_token: gen_bytes(r) } }
    fn fv(&self) -> Vec<String> { vec![vb(&self.shared_secret), vb(&self.verify_token)] }
}
unit_pk!(lsb::LoginPluginResponsePacket, "login_sb_LoginPluginResponsePacket", lsb::LoginPluginResponsePacket);
unit_pk!(lsb::LoginAcknowledgedPacket, "login_sb_LoginAcknowledgedPacket", lsb::LoginAcknowledgedPacket);
impl Pk for lsb::CookieResponsePacket {
    const IDENT: &'static str = "login_sb_CookieResponsePacket";
    fn gen_val(r: &mut Rng) -> Self {
        Self { key: gen_string(r), payload: if r.chance(1, 3) { None } else { Some(gen_bytes(r)) } }
    }
    fn fv(&self) -> Vec<String> { vec![vb(self.key.as_bytes()), vopt(self.payload.as_ref().map(|p| vb(p)))] }
}
impl Pk for ccb::CookieRequestPacket {
    const IDENT: &'static str = "configuration_cb_CookieRequestPacket";
    fn gen_val(r: &mut Rng) -> Self { Self { key: gen_string(r) } }
    fn fv(&self) -> Vec<String> { vec![vb(self.key.as_bytes())] }
}
unit_pk!(ccb::PluginMessagePacket, "configuration_cb_PluginMessagePacket", ccb::PluginMessagePacket);
impl Pk for ccb::DisconnectPacket {
    const IDENT: &'static str = "configuration_cb_DisconnectPacket";
    fn gen_val(r: &mut Rng) -> Self { Self { reason: gen_text(r) } }
    fn fv(&self) -> Vec<String> { vec![vb(self.reason.as_bytes())] }
}
unit_pk!(ccb::FinishConfigurationPacket, "configuration_cb_FinishConfigurationPacket", ccb::FinishConfigurationPacket);
impl Pk for ccb::KeepAlivePacket {
    const IDENT: &'static str = "configuration_cb_KeepAlivePacket";
    fn gen_val(r: &mut Rng) -> Self { Self { id: gen_u64(r) } }
    fn fv(&self) -> Vec<String> { vec![vz(self.id)] }
}
impl Pk for ccb::PingPacket {
    const IDENT: &'static str = "configuration_cb_PingPacket";
    fn gen_val(r: &mut Rng) -> Self { Self { id: gen_i32(r) } }
    fn fv(&self) -> Vec<String> { vec![vz(self.id)] }
}
unit_pk!(ccb::ResetChatPacket, "configuration_cb_ResetChatPacket", ccb::ResetChatPacket);
unit_pk!(ccb::RegistryDataPacket, "configuration_cb_RegistryDataPacket", ccb::RegistryDataPacket);
unit_pk!(ccb::RemoveResourcePackPacket, "configuration_cb_RemoveResourcePackPacket", ccb::RemoveResourcePackPacket);
impl Pk for ccb::AddResourcePackPacket {
    const IDENT: &'static str = "configuration_cb_AddResourcePackPacket";
    fn gen_val(r: &mut Rng) -> Self {
        Self { uuid: gen_uuid(r), url: gen_string(r), hash: gen_string(r), forced: r.chance(1, 2),
               prompt_message: if r.chance(1, 3) { None } else { Some(gen_text(r)) } }
    }
    fn fv(&self) -> Vec<String> {
        vec![vuuid(&self.uuid), vb(self.url.as_bytes()), vb(self.hash.as_bytes()), vbool(self.forced),
             vopt(self.prompt_message.as_ref().map(|p| vb(p.as_bytes())))]
    }
}
impl Pk for ccb::StoreCookiePacket {
    const IDENT: &'static str = "configuration_cb_StoreCookiePacket";
    fn gen_val(r: &mut Rng) -> Self { Self { key: gen_string(r), payload: gen_bytes(r) } }
    fn fv(&self) -> Vec<String> { vec![vb(self.key.as_bytes()), vb(&self.payload)] }
}
impl Pk for ccb::TransferPacket {
    const IDENT: &'static str = "configuration_cb_TransferPacket";
    fn gen_val(r: &mut Rng) -> Self { Self { host: gen_string(r), port: r.boundary(0, 65535) as u16 } }
    fn fv(&self) -> Vec<String> { vec![vb(self.host.as_bytes()), vz(self.port)] }
}
unit_pk!(ccb::FeatureFlagsPacket, "configuration_cb_FeatureFlagsPacket", ccb::FeatureFlagsPacket);
unit_pk!(ccb::UpdateTagsPacket, "configuration_cb_UpdateTagsPacket", ccb::UpdateTagsPacket);
unit_pk!(ccb::KnownPacksPacket, "configuration_cb_KnownPacksPacket", ccb::KnownPacksPacket);
unit_pk!(ccb::CustomReportDetailsPacket, "configuration_cb_CustomReportDetailsPacket", ccb::CustomReportDetailsPacket);
unit_pk!(ccb::ServerLinksPacket, "configuration_cb_ServerLinksPacket", ccb::ServerLinksPacket);
impl Pk for csb::ClientInformationPacket {
    const IDENT: &'static str = "configuration_sb_ClientInformationPacket";
    fn gen_val(r: &mut Rng) -> Self {
        Self { locale: gen_string(r), view_distance: r.boundary(-128, 127) as i8, chat_mode: *r.pick(&CHAT),
               chat_colors: r.chance(1, 2), displayed_skin_parts: DisplayedSkinParts(r.boundary(0, 255) as u8),
               main_hand: *r.pick(&HAND), enable_text_filtering: r.chance(1, 2), allow_server_listing: r.chance(1, 2),
               particle_status: *r.pick(&PART) }
    }
    fn fv(&self) -> Vec<String> {
        vec![vb(self.locale.as_bytes()), vz(self.view_distance), vz(idx(&CHAT, &self.chat_mode)), vbool(self.chat_colors),
             vz(self.displayed_skin_parts.0), vz(idx(&HAND, &self.main_hand)), vbool(self.enable_text_filtering),
             vbool(self.allow_server_listing), vz(idx(&PART, &self.particle_status))]
    }
}
unit_pk!(csb::CookieResponsePacket, "configuration_sb_CookieResponsePacket", csb::CookieResponsePacket);
unit_pk!(csb::PluginMessagePacket, "configuration_sb_PluginMessagePacket", csb::PluginMessagePacket);
unit_pk!(csb::AckFinishConfigurationPacket, "configuration_sb_AckFinishConfigurationPacket", csb::AckFinishConfigurationPacket);
impl Pk for csb::KeepAlivePacket {
    const IDENT: &'static str = "configuration_sb_KeepAlivePacket";
    fn gen_val(r: &mut Rng) -> Self { Self { id: gen_u64(r) } }
    fn fv(&self) -> Vec<String> { vec![vz(self.id)] }
}
impl Pk for csb::PongPacket {
    const IDENT: &'static str = "configuration_sb_PongPacket";
    fn gen_val(r: &mut Rng) -> Self { Self { id: gen_i32(r) } }
    fn fv(&self) -> Vec<String> { vec![vz(self.id)] }
}
impl Pk for csb::ResourcePackResponsePacket {
    const IDENT: &'static str = "configuration_sb_ResourcePackResponsePacket";
    fn gen_val(r: &mut Rng) -> Self { Self { uuid: gen_uuid(r), result: *r.pick(&RPR) } }
    fn fv(&self) -> Vec<String> { vec![vuuid(&self.uuid), vz(idx(&RPR, &self.result))] }
}
unit_pk!(csb::KnownPacksPacket, "configuration_sb_KnownPacksPacket", csb::KnownPacksPacket);

fn err_name(e: &Error) -> &'static str {
    match e {
        Error::Io(io) if io.kind() == std::io::ErrorKind::UnexpectedEof => "EEof",
        Error::Io(_) => "EEof",
        Error::IllegalPacketLength => "ELen",
        Error::IllegalEnumValue { .. } => "EEnum",
        Error::IllegalPacketId { .. } => "EUnmodelled",
        Error::InvalidEncoding => "EUtf8",
        Error::ArrayConversionFailed => "EArray",
        Error::Json(_) | Error::Nbt(_) => "EUnmodelled",
    }
}

/// a reader that returns at most `chunk` bytes per read
struct Chunked<'a> { data: &'a [u8], pos: usize, chunk: usize }
impl<'a> tokio::io::AsyncRead for Chunked<'a> {
    fn poll_read(mut self: std::pin::Pin<&mut Self>, _cx: &mut std::task::Context<'_>, buf: &mut tokio::io::ReadBuf<'_>) -> std::task::Poll<std::io::Result<()>> {
        let n = self.chunk.min(self.data.len() - self.pos).min(buf.remaining());
        let (a, b) = (self.pos, self.pos + n);
        buf.put_slice(&self.data[a..b]);
        self.pos = b;
        std::task::Poll::Ready(Ok(()))
    }
}

/// decode `bytes` with the real reader; Gallina `dres` term + largest allocation request
fn decode_obs<T: Pk>(bytes: &[u8]) -> (String, usize) {
    let data = bytes.to_vec();
    let res = catch_unwind(AssertUnwindSafe(|| {
        block_on(async {
            let mut cur = Cursor::new(data);
            alloc_reset();
            let r = T::read_from_buffer(&mut cur).await;
            let maxreq = alloc_max_request();
            let rest = cur.get_ref().len() as u64 - cur.position().min(cur.get_ref().len() as u64);
            (r, rest, maxreq)
        })
    }));
    let maxreq = match &res { Ok((_, _, m)) => *m, Err(_) => alloc_max_request() };
    let res = res.map(|(a, b, _)| (a, b));
    let term = match res {
        Err(_) => "(DErr EPanic)".to_string(),
        Ok((Ok(v), rest)) => format!("(DOk {} {})", g_list(&v.fv()), rest),
        Ok((Err(e), _)) => format!("(DErr {})", err_name(&e)),
    };
    (term, maxreq)
}

fn mutate(r: &mut Rng, enc: &[u8]) -> Vec<u8> {
    let mut b = enc.to_vec();
    match r.below(12) {
        9 | 10 | 11 => {
            // the last byte (the ordinal of a trailing enum field in Handshake / Client Information / Resource Pack
            // Response) replaced by an ordinal outside every table, including the ones a narrowing cast folds back in
            let v: i32 = *r.pick(&[-1i32, 3, 4, 8, 9, 127, 128, 255, 256, 257, 258, 259, 260, 263, 264, 513, 65_536, 65_537, 65_538,
                                   -255, -254, -256, i32::MIN, i32::MIN + 1, i32::MIN + 2, i32::MAX, 16_777_217]);
            b.pop();
            let mut u = v as u32;
            loop { let g = (u & 0x7f) as u8; u >>= 7; if u == 0 { b.push(g); break; } else { b.push(g | 0x80); } }
        }
        0 => { let n = r.below(b.len() as u64 + 1) as usize; b.truncate(n); }
        1 => { if !b.is_empty() { let i = r.below(b.len() as u64) as usize; b[i] ^= 1 << r.below(8); } }
        2 => { if !b.is_empty() { let i = r.below(b.len() as u64) as usize; b[i] = *r.pick(&[0u8, 1, 2, 3, 7, 8, 0x7f, 0x80, 0xff]); } }
        3 => { // replace the first byte(s) by a hostile varint (negative / huge / over-long)
            let v: &[u8] = *r.pick(&[&[0xff, 0xff, 0xff, 0xff, 0x0f][..], &[0x80, 0x80, 0x80, 0x80, 0x08][..],
                                     &[0xff, 0xff, 0xff, 0xff, 0x07][..], &[0xff, 0xff, 0xff, 0xff, 0xff][..],
                                     &[0x80, 0x80, 0x80, 0x80, 0x80, 0x01][..], &[0x81, 0x00][..]]);
            let cut = r.below(b.len().min(3) as u64 + 1) as usize;
            let mut n = v.to_vec(); n.extend_from_slice(&b[cut..]); b = n; }
        4 => { let k = 1 + r.below(4) as usize; let extra = r.bytes(k); b.extend_from_slice(&extra); }
        5 => { // hostile varint at a random position (inner length fields)
            if !b.is_empty() { let i = r.below(b.len() as u64) as usize;
                let v: &[u8] = *r.pick(&[&[0xff, 0xff, 0xff, 0xff, 0x0f][..], &[0xff, 0xff, 0xff, 0xff, 0x07][..], &[0x80, 0x80, 0x80, 0x80, 0x08][..]]);
                let mut n = b[..i].to_vec(); n.extend_from_slice(v); n.extend_from_slice(&b[(i + 1).min(b.len())..]); b = n; } }
        6 => { // invalid UTF-8 sequences spliced in
            if !b.is_empty() { let i = r.below(b.len() as u64) as usize;
                let v: &[u8] = *r.pick(&[&[0xc0, 0x80][..], &[0xed, 0xa0, 0x80][..], &[0xf4, 0x90, 0x80, 0x80][..], &[0xe2, 0x82][..], &[0x80][..]]);
                for (k, x) in v.iter().enumerate() { if i + k < b.len() { b[i + k] = *x; } } } }
        7 => { let k = r.below(24) as usize; b = r.bytes(k); }
        _ => { if b.len() > 1 { b.remove(r.below(b.len() as u64) as usize); } }
    }
    b
}

fn run_type<T: Pk>(r: &mut Rng, n_rt: usize, n_dec: usize) {
    for _ in 0..n_rt {
        let v = T::gen_val(r);
        let enc = block_on(async {
            let mut buf: Vec<u8> = Vec::new();
            v.write_to_buffer(&mut buf).await.map(|_| buf)
        });
        let Ok(enc) = enc else { continue };
        // impl-side round trip
        let back = block_on(async {
            let mut cur = Cursor::new(enc.clone());
            let r = T::read_from_buffer(&mut cur).await;
            (r, cur.position() as usize == cur.get_ref().len())
        });
        // the same bytes through a reader that hands out only a few bytes per read (a frame straddling TCP segments, any
        // AsyncRead that returns less than was asked for): the decoded value must be the same
        let chunk = *r.pick(&[1usize, 2, 3, 7, 100, 1000]);
        let back2 = block_on(async {
            let mut rd = Chunked { data: &enc, pos: 0, chunk };
            let r = T::read_from_buffer(&mut rd).await;
            (r, rd.pos == enc.len())
        });
        let impl_ok = matches!(&back, (Ok(b), true) if *b == v) && matches!(&back2, (Ok(b), true) if *b == v);
        emit_case("RT", &format!("(RT {} {} {} {})", T::IDENT, g_list(&v.fv()), g_hex(&enc), g_bool(impl_ok)));
        for _ in 0..n_dec {
            let m = mutate(r, &enc);
            let (obs, maxreq) = decode_obs::<T>(&m);
            emit_case("DEC", &format!("(DEC {} {} {} {})", T::IDENT, g_hex(&m), obs, maxreq));
        }
    }
}

/// poll a future that never really suspends (Vec / Cursor I/O)
fn now<F: std::future::Future>(f: F) -> F::Output {
    let mut f = std::pin::pin!(f);
    let w = std::task::Waker::noop();
    let mut cx = std::task::Context::from_waker(&w);
    match f.as_mut().poll(&mut cx) { std::task::Poll::Ready(v) => v, std::task::Poll::Pending => panic!("pending") }
}

/// independent LEB128 of the 32-bit pattern (the protocol's VarInt), written here from the
/// protocol text, not from the crate
fn leb32(v: i32) -> ([u8; 5], usize) {
    let mut u = v as u32; let mut out = [0u8; 5]; let mut n = 0;
    loop { let b = (u & 0x7f) as u8; u >>= 7; if u != 0 { out[n] = b | 0x80; n += 1; } else { out[n] = b; n += 1; break; } }
    (out, n)
}

/// every `stride`-th i32 plus all boundary values: the real writer against LEB128 and the
/// real reader against the value; one summary case
fn sweep_varints(stride: u64) {
    fn check(v: i32) -> bool {
        // no heap allocation here: the counting allocator's atomics would serialise the workers
        let mut arr = [0u8; 16];
        let mut w = Cursor::new(&mut arr[..]);
        if now(w.write_varint(v)).is_err() { return false; }
        let len = w.position() as usize;
        let (l, n) = leb32(v);
        let mut cur = Cursor::new(&arr[..len]);
        let back = now(cur.read_varint());
        arr[..len] == l[..n] && matches!(back, Ok(b) if b == v) && cur.position() as usize == len
    }
    // 16 worker threads over disjoint ranges
    let total: i64 = 1i64 << 32;
    let workers = 16i64;
    let per = total / workers;
    let results: Vec<(u64, u64, i64)> = std::thread::scope(|sc| {
        let hs: Vec<_> = (0..workers).map(|w| sc.spawn(move || {
            let lo = i32::MIN as i64 + w * per;
            let hi = if w == workers - 1 { i32::MAX as i64 } else { lo + per - 1 };
            // align the first value of the range to the stride grid starting at i32::MIN
            let off = (lo - i32::MIN as i64) % stride as i64;
            let mut v = if off == 0 { lo } else { lo + (stride as i64 - off) };
            let (mut count, mut bad, mut first_bad) = (0u64, 0u64, 0i64);
            while v <= hi { count += 1; if !check(v as i32) { if bad == 0 { first_bad = v; } bad += 1; } v += stride as i64; }
            (count, bad, first_bad)
        })).collect();
        hs.into_iter().map(|h| h.join().unwrap()).collect()
    });
    let mut count: u64 = results.iter().map(|r| r.0).sum();
    let mut bad: u64 = results.iter().map(|r| r.1).sum();
    let mut first_bad: i64 = results.iter().filter(|r| r.1 > 0).map(|r| r.2).next().unwrap_or(0);
    for k in 0..32u32 { for d in [-1i64, 0, 1] { for sgn in [1i64, -1] {
        let x = sgn * ((1i64 << k) + d);
        if x >= i32::MIN as i64 && x <= i32::MAX as i64 { count += 1; if !check(x as i32) { if bad == 0 { first_bad = x; } bad += 1; } } } } }
    emit_case("VX", &format!("(VX {} {} {} {})", stride, count, bad, g_z(first_bad)));
}

fn run_varints(r: &mut Rng, n: usize) {
    // every boundary value deterministically, then seeded ones
    let mut fixed32: Vec<i32> = vec![i32::MIN, i32::MAX, 0];
    let mut fixed64: Vec<i64> = vec![i64::MIN, i64::MAX, 0];
    for k in 0..64u32 { for d in [-1i128, 0, 1] { for sgn in [1i128, -1] {
        let x = sgn * ((1i128 << k) + d);
        if x >= i32::MIN as i128 && x <= i32::MAX as i128 { fixed32.push(x as i32); }
        if x >= i64::MIN as i128 && x <= i64::MAX as i128 { fixed64.push(x as i64); } } } }
    fixed32.sort(); fixed32.dedup(); fixed64.sort(); fixed64.dedup();
    for v in fixed32 {
        let mut buf: Vec<u8> = Vec::new();
        now(buf.write_varint(v)).unwrap();
        let mut cur = Cursor::new(buf.clone());
        let back = now(cur.read_varint());
        let rest = buf.len() - cur.position() as usize;
        let back = match back { Ok(b) => format!("(Some {})", g_z(b)), Err(_) => "None".into() };
        emit_case("VI", &format!("(VI {} {} {} {})", g_z(v), g_hex(&buf), back, rest));
    }
    for v in fixed64 {
        let mut buf: Vec<u8> = Vec::new();
        now(buf.write_varlong(v)).unwrap();
        let mut cur = Cursor::new(buf.clone());
        let back = now(cur.read_varlong());
        let rest = buf.len() - cur.position() as usize;
        let back = match back { Ok(b) => format!("(Some {})", g_z(b)), Err(_) => "None".into() };
        emit_case("VL", &format!("(VL {} {} {} {})", g_z(v), g_hex(&buf), back, rest));
    }
    for _ in 0..n {
        let v = r.boundary(i32::MIN as i128, i32::MAX as i128) as i32;
        let (enc, back, rest) = block_on(async {
            let mut buf: Vec<u8> = Vec::new();
            buf.write_varint(v).await.unwrap();
            let mut cur = Cursor::new(buf.clone());
            let b = cur.read_varint().await;
            (buf, b, cur.get_ref().len() - cur.position() as usize)
        });
        let back = match back { Ok(b) => format!("(Some {})", g_z(b)), Err(_) => "None".into() };
        emit_case("VI", &format!("(VI {} {} {} {})", g_z(v), g_hex(&enc), back, rest));
        let v = r.boundary(i64::MIN as i128, i64::MAX as i128) as i64;
        let (enc, back, rest) = block_on(async {
            let mut buf: Vec<u8> = Vec::new();
            buf.write_varlong(v).await.unwrap();
            let mut cur = Cursor::new(buf.clone());
            let b = cur.read_varlong().await;
            (buf, b, cur.get_ref().len() - cur.position() as usize)
        });
        let back = match back { Ok(b) => format!("(Some {})", g_z(b)), Err(_) => "None".into() };
        emit_case("VL", &format!("(VL {} {} {} {})", g_z(v), g_hex(&enc), back, rest));
        // raw byte strings through the readers (over-long, truncated, continuation on the last byte)
        let raw = match r.below(4) {
            0 => { let n = r.below(12) as usize; r.bytes(n) }
            1 => { let n = r.below(12) as usize; (0..n).map(|_| 0x80 | r.next() as u8).collect() }
            _ => { let n = 1 + r.below(11) as usize; let mut b: Vec<u8> = (0..n).map(|_| 0x80 | r.next() as u8).collect(); let l = b.len(); b[l - 1] &= 0x7f; b }
        };
        let (b32, rest32, b64, rest64) = block_on(async {
            let mut cur = Cursor::new(raw.clone());
            let a = cur.read_varint().await;
            let ra = raw.len() - cur.position() as usize;
            let mut cur = Cursor::new(raw.clone());
            let b = cur.read_varlong().await;
            let rb = raw.len() - cur.position() as usize;
            (a, ra, b, rb)
        });
        let f32_ = match b32 { Ok(b) => format!("(Some ({}, {}))", g_z(b), ra_fmt(rest32)), Err(_) => "None".into() };
        let f64_ = match b64 { Ok(b) => format!("(Some ({}, {}))", g_z(b), ra_fmt(rest64)), Err(_) => "None".into() };
        emit_case("VR", &format!("(VR {} {} {})", g_hex(&raw), f32_, f64_));
    }
}
fn ra_fmt(n: usize) -> String { format!("{}", n) }

fn main() {
    quiet_panics();
    let mut r = Rng::from_env();
    let scale: usize = std::env::var("VERIF_SCALE").ok().and_then(|s| s.parse().ok()).unwrap_or(1);
    let (n_rt, n_dec) = (6 * scale, 3);
    macro_rules! all { ($($t:ty),* $(,)?) => { $( run_type::<$t>(&mut r, n_rt, n_dec); )* }; }
    all!(hsb::HandshakePacket, scb::StatusResponsePacket, scb::PongPacket, ssb::StatusRequestPacket, ssb::PingPacket,
         lcb::DisconnectPacket, lcb::EncryptionRequestPacket, lcb::LoginSuccessPacket, lcb::SetCompressionPacket,
         lcb::LoginPluginRequestPacket, lcb::CookieRequestPacket, lsb::LoginStartPacket, lsb::EncryptionResponsePacket,
         lsb::LoginPluginResponsePacket, lsb::LoginAcknowledgedPacket, lsb::CookieResponsePacket,
         ccb::CookieRequestPacket, ccb::PluginMessagePacket, ccb::DisconnectPacket, ccb::FinishConfigurationPacket,
         ccb::KeepAlivePacket, ccb::PingPacket, ccb::ResetChatPacket, ccb::RegistryDataPacket, ccb::RemoveResourcePackPacket,
         ccb::AddResourcePackPacket, ccb::StoreCookiePacket, ccb::TransferPacket, ccb::FeatureFlagsPacket, ccb::UpdateTagsPacket,
         ccb::KnownPacksPacket, ccb::CustomReportDetailsPacket, ccb::ServerLinksPacket, csb::ClientInformationPacket,
         csb::CookieResponsePacket, csb::PluginMessagePacket, csb::AckFinishConfigurationPacket, csb::KeepAlivePacket,
         csb::PongPacket, csb::ResourcePackResponsePacket, csb::KnownPacksPacket);
    run_varints(&mut r, 60 * scale);
    sweep_varints(if scale >= 8 { 1 } else { 4099 });
    // fixed corpus: inner length prefixes -1, i32::MIN, 2^31-1 (panicked / asked for 2 GiB before the repair)
    for lenp in [&[0xffu8, 0xff, 0xff, 0xff, 0x0f][..], &[0x80, 0x80, 0x80, 0x80, 0x08][..], &[0xff, 0xff, 0xff, 0xff, 0x07][..]] {
        let mut hs = vec![0x81u8, 0x06];
        hs.extend_from_slice(lenp);
        hs.extend_from_slice(b"localhost\x63\xdd\x02");
        let (obs, maxreq) = decode_obs::<hsb::HandshakePacket>(&hs);
        emit_case("DEC", &format!("(DEC {} {} {} {})", <hsb::HandshakePacket as Pk>::IDENT, g_hex(&hs), obs, maxreq));
        let mut er = lenp.to_vec();
        er.extend_from_slice(&[1, 2, 3]);
        let (obs, maxreq) = decode_obs::<lsb::EncryptionResponsePacket>(&er);
        emit_case("DEC", &format!("(DEC {} {} {} {})", <lsb::EncryptionResponsePacket as Pk>::IDENT, g_hex(&er), obs, maxreq));
    }
    // fixed corpus: the VarLong witness of the repaired defect and the extremes
    for v in [-1i64, i64::MIN, i64::MAX, -2, 1 << 62, -(1 << 56)] {
        let (enc, back, rest) = block_on(async {
            let mut buf: Vec<u8> = Vec::new();
            buf.write_varlong(v).await.unwrap();
            let mut cur = Cursor::new(buf.clone());
            let b = cur.read_varlong().await;
            (buf, b, cur.get_ref().len() - cur.position() as usize)
        });
        let back = match back { Ok(b) => format!("(Some {})", g_z(b)), Err(_) => "None".into() };
        emit_case("VL", &format!("(VL {} {} {} {})", g_z(v), g_hex(&enc), back, rest));
    }
}
