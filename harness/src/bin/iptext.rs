//! Library tie for coq/Lib/IpText.v: runs Rust's std `Display` and `FromStr` of
//! IpAddr / Ipv4Addr / Ipv6Addr / SocketAddr on seeded, structured inputs and prints one
//! Gallina `ipcase` per line.  Families: SHOW (value -> text), PARSE (text -> value),
//! SOCK (socket address text -> value and value -> text).
use std::collections::HashSet;
use std::net::{IpAddr, Ipv4Addr, Ipv6Addr, SocketAddr, SocketAddrV4, SocketAddrV6};
use std::str::FromStr;
use vh::*;

// ------------------------------------------------------------------ Gallina printers
fn g_ip(a: &IpAddr) -> String {
    match a {
        IpAddr::V4(v) => {
            let o = v.octets();
            format!("(V4 {} {} {} {})", o[0], o[1], o[2], o[3])
        }
        IpAddr::V6(v) => {
            let s: Vec<String> = v.segments().iter().map(|x| x.to_string()).collect();
            format!("(V6 [{}])", s.join("; "))
        }
    }
}
fn g_oip(r: Option<IpAddr>) -> String { g_opt(r.map(|a| g_ip(&a))) }
fn g_sock(r: Option<SocketAddr>) -> String {
    g_opt(r.map(|s| {
        let scope = match s { SocketAddr::V6(v) => v.scope_id(), SocketAddr::V4(_) => 0 };
        format!("({}, {}, {})", g_ip(&s.ip()), s.port(), scope)
    }))
}

// ------------------------------------------------------------------ value generators
const OCT: [u8; 14] = [0, 1, 7, 9, 10, 11, 99, 100, 101, 127, 128, 199, 254, 255];
const SEG: [u16; 18] = [
    1, 9, 0xa, 0xf, 0x10, 0x63, 0x64, 0xff, 0x100, 0x101, 0xabc, 0xfff, 0x1000, 0x1234, 0xfffe, 0xffff, 0x255, 0x99,
];

fn gen_octet(r: &mut Rng) -> u8 { if r.chance(2, 3) { *r.pick(&OCT) } else { r.next() as u8 } }
fn gen_v4(r: &mut Rng) -> Ipv4Addr { Ipv4Addr::new(gen_octet(r), gen_octet(r), gen_octet(r), gen_octet(r)) }
fn gen_nz(r: &mut Rng) -> u16 {
    if r.chance(2, 3) { *r.pick(&SEG) } else { (r.next() as u16).max(1) }
}
/// segments following a zero pattern: bit i set <=> segment i is zero
fn v6_pattern(r: &mut Rng, pat: u32) -> Ipv6Addr {
    let mut s = [0u16; 8];
    for (i, slot) in s.iter_mut().enumerate() {
        if pat >> i & 1 == 0 { *slot = gen_nz(r); }
    }
    Ipv6Addr::from(s)
}
fn seg6(s: [u16; 8]) -> Ipv6Addr { Ipv6Addr::from(s) }

fn special_v6(r: &mut Rng) -> Vec<Ipv6Addr> {
    let mut v = vec![
        Ipv6Addr::UNSPECIFIED,
        Ipv6Addr::LOCALHOST,
        seg6([0, 0, 0, 0, 0, 0, 0, 0xffff]),
        seg6([0, 0, 0, 0, 0, 0xffff, 0, 0]),
        seg6([0, 0, 0, 0, 0, 0xffff, 0xffff, 0xffff]),
        seg6([0, 0, 0, 0, 0, 0xfffe, 0x102, 0x304]),
        seg6([0, 0, 0, 0, 0xffff, 0, 0x102, 0x304]),
        seg6([0, 0, 0, 0, 1, 0xffff, 0x102, 0x304]),
        seg6([1, 0, 0, 0, 0, 0xffff, 0x102, 0x304]),
        seg6([0, 0, 0, 0, 0, 0, 0x102, 0x304]),
        seg6([0, 0, 0, 0, 0, 0, 0, 0x304]),
        seg6([0, 0, 0, 0, 0, 0, 0x102, 0]),
        seg6([0x64, 0xff9b, 0, 0, 0, 0, 0xc000, 0x221]),
        seg6([0x2001, 0xdb8, 0, 0, 1, 0, 0, 1]),
        seg6([0x2001, 0xdb8, 0, 0, 0, 1, 0, 0]),
        seg6([0x2001, 0, 0, 1, 0, 0, 0, 1]),
        seg6([1, 0, 0, 2, 3, 0, 0, 4]),
        seg6([0, 0, 1, 0, 0, 1, 0, 0]),
        seg6([0, 1, 0, 1, 0, 1, 0, 1]),
        seg6([1, 0, 1, 0, 1, 0, 1, 0]),
        seg6([0xffff; 8]),
        seg6([0xfe80, 0, 0, 0, 0, 0, 0, 1]),
        seg6([0, 0, 0, 0, 0, 0, 1, 0]),
        seg6([1, 0, 0, 0, 0, 0, 0, 0]),
        seg6([0, 1, 0, 0, 0, 0, 0, 0]),
        seg6([0x123, 0x45, 0x6, 0x7890, 0xa, 0xbc, 0xdef, 0x1]),
        seg6([10, 100, 255, 256, 999, 0x999, 0x1999, 0x9999]),
    ];
    for _ in 0..12 {
        v.push(gen_v4(r).to_ipv6_mapped());
        let o = gen_v4(r).octets();
        v.push(seg6([0, 0, 0, 0, 0, 0, u16::from_be_bytes([o[0], o[1]]), u16::from_be_bytes([o[2], o[3]])]));
    }
    v
}

fn gen_v6(r: &mut Rng) -> Ipv6Addr {
    match r.below(4) {
        0 => seg6([r.next() as u16, r.next() as u16, r.next() as u16, r.next() as u16,
                   r.next() as u16, r.next() as u16, r.next() as u16, r.next() as u16]),
        _ => { let p = r.below(256) as u32; v6_pattern(r, p) }
    }
}
fn gen_ip(r: &mut Rng) -> IpAddr { if r.chance(1, 3) { IpAddr::V4(gen_v4(r)) } else { IpAddr::V6(gen_v6(r)) } }

// ------------------------------------------------------------------ alternative spellings
fn spell_hex(r: &mut Rng, g: u16) -> String {
    let mut s = format!("{:x}", g);
    if r.chance(1, 3) { while s.len() < 4 && r.chance(2, 3) { s.insert(0, '0'); } }
    match r.below(3) {
        0 => s.to_uppercase(),
        1 => s.chars().map(|c| if r.chance(1, 2) { c.to_ascii_uppercase() } else { c }).collect(),
        _ => s,
    }
}
/// some valid (RFC 4291) spelling of the address: `::` over any run of >= 1 zero groups
/// or none at all, optional embedded IPv4 tail, random case and zero padding
fn spell_v6(r: &mut Rng, a: &Ipv6Addr) -> String {
    let s = a.segments();
    let tail4 = r.chance(1, 4);
    let n = if tail4 { 6 } else { 8 };
    // candidate compressions (start, len) with all-zero groups inside the first n groups
    let mut cands: Vec<(usize, usize)> = vec![];
    for st in 0..n {
        for len in 1..=(n - st) {
            if s[st..st + len].iter().all(|x| *x == 0) { cands.push((st, len)); }
        }
    }
    let comp = if cands.is_empty() || r.chance(1, 4) { None } else { Some(*r.pick(&cands)) };
    let grp = |r: &mut Rng, xs: &[u16]| xs.iter().map(|g| spell_hex(r, *g)).collect::<Vec<_>>().join(":");
    let v4 = format!("{}.{}.{}.{}", s[6] >> 8, s[6] & 255, s[7] >> 8, s[7] & 255);
    match comp {
        None => {
            let mut t = grp(r, &s[..n]);
            if tail4 { t.push(':'); t.push_str(&v4); }
            t
        }
        Some((st, len)) => {
            let mut t = grp(r, &s[..st]);
            t.push_str("::");
            t.push_str(&grp(r, &s[st + len..n]));
            if tail4 {
                if st + len < n { t.push(':'); }
                t.push_str(&v4);
            }
            t
        }
    }
}

const ALPHA: &[u8] = b"0123456789abcdefABCDEFgG:.%[] +-x/\t\0";
fn mutate(r: &mut Rng, s: &str) -> String {
    let mut b: Vec<u8> = s.as_bytes().to_vec();
    let k = 1 + r.below(2);
    for _ in 0..k {
        let pos = r.below(b.len() as u64 + 1) as usize;
        match r.below(4) {
            0 => b.insert(pos, *r.pick(ALPHA)),
            1 => { if pos < b.len() { b.remove(pos); } }
            2 => { if pos < b.len() { b[pos] = *r.pick(ALPHA); } }
            _ => { if pos < b.len() { let c = b[pos]; b.insert(pos, c); } }
        }
    }
    String::from_utf8_lossy(&b).into_owned()
}
fn random_text(r: &mut Rng) -> String {
    let n = r.below(24) as usize;
    let alpha: &[u8] = if r.chance(1, 2) { b"0123456789abcdef:." } else { b"012589afAF:::..%[]" };
    (0..n).map(|_| *r.pick(alpha) as char).collect()
}

const BAD_IP: &[&str] = &[
    "", " ", "1.2.3.4 ", " 1.2.3.4", "1.2.3.4\n", "01.2.3.4", "1.02.3.4", "1.2.3.04", "00.0.0.0", "0.0.0.00",
    "256.1.1.1", "1.1.1.256", "999.1.1.1", "1000.1.1.1", "0255.1.1.1", "1.2.3", "1.2.3.", "1.2.3.4.", "1.2.3.4.5",
    ".1.2.3.4", "1..2.3", "1.2.3.4:80", "1.2.3.-4", "+1.2.3.4", "1.2.3.4a", "0x1.2.3.4", "1.2.3.4/24", "a.b.c.d",
    "0.0.0.0", "255.255.255.255", "127.0.0.1", "1.2.3.4", "1.2.3.4::", "::1.2.3.4", "::1.2.3", "::1.2.3.4.5",
    "::01.2.3.4", "::256.2.3.4", "1.2.3.4::1", "1.2.3.4:1:2:3:4:5:6", "1:2:3:4:5:6:1.2.3.4", "1:2:3:4:5:1.2.3.4",
    "1:2:3:4:5:6:7:1.2.3.4", "1:2:3:4:5::1.2.3.4", "1:2:3:4:5:6::1.2.3.4", "::1.2.3.4:5", "1::1.2.3.4:5",
    "::ffff:1.2.3.4", "::FFFF:1.2.3.4", "::ffff:01.2.3.4", "::ffff:1.2.3.256", "0:0:0:0:0:ffff:1.2.3.4",
    "::", ":::", "::::", ":", "::1", ":1", "1:", "1::", "1::2", "1::2::3", "::1::", "1:::2", "1:2", "1:2:3:4:5:6:7",
    "1:2:3:4:5:6:7:8", "1:2:3:4:5:6:7:8:9", "1:2:3:4:5:6:7::", "::2:3:4:5:6:7:8", "1:2:3:4:5:6:7::8", "1::2:3:4:5:6:7:8",
    "1:2:3:4::5:6:7:8", "1:2:3:4::5:6:7", "12345::", "::12345", "1:2:3:4:5:6:7:12345", "00000::", "::00001", "0000::0000",
    "::g", "g::", "::-1", "::+1", "::0x1", "::1%1", "::1%eth0", "fe80::1%1", "[::1]", "[::1", "::1]", " ::1", "::1 ",
    ":: 1", "::\t", "ABCD:EF01:2345:6789:abcd:ef01:2345:6789", "FFFF:ffff:FFFF:ffff:FFFF:ffff:FFFF:ffff",
    "0:0:0:0:0:0:0:0", "0:0:0:0:0:0:0:1", "0000:0000:0000:0000:0000:0000:0000:0001", "2001:db8::", "2001:DB8:0:0:1::1",
    "1:2:3:4:5:6:7:", ":1:2:3:4:5:6:7", ":1:2:3:4:5:6:7:8", "1:2:3:4:5:6:7:8:", "1:2:3:4:5:6:7:8::", "::1:2:3:4:5:6:7:8",
    "1::2:3:4:5:6:7", "::ffff:1.2.3", "::ffff:1.2.3.4.5", "1.2.3.4.5.6", "\u{ff11}.2.3.4", "1.2.3.\u{664}", "::\u{ff11}",
    "é", "::é", "localhost", "1:2:3:4:5:6:255.255.255.255", "::255.255.255.255", "::0.0.0.0", "::0.0.0.1",
    "1:2:3:4:5:6:7:8.1.1.1", "1:2:3:4:5:6:77.1.1.1", "1:2:3:4:5:6:777.1.1.1", "::a1.2.3.4", "::1a.2.3.4", "::1.2.3.4a",
];

const PORTS: &[&str] = &[
    "0", "1", "80", "25565", "65535", "65536", "65540", "99999", "100000", "655350", "+80", "-80", "080", "0080", "00",
    "0000000000000000080", "00000000000065535", "00000000000065536", "", " 80", "80 ", "8 0", "0x50", "80a", "a",
    "４", "4294967296", "18446744073709551616",
];
const SCOPES: &[&str] = &[
    "%0", "%1", "%7", "%00", "%007", "%4294967295", "%4294967296", "%42949672950", "%0000000004294967295", "%", "%eth0",
    "%+1", "%-1", "% 1", "%1 ", "%%1", "%1%2",
];

// ------------------------------------------------------------------ case printers
fn show_case(a: &IpAddr) { emit_case("SHOW", &format!("SHOW {} {}", g_ip(a), g_str(&a.to_string()))); }
fn parse_case(t: &str) {
    let r = IpAddr::from_str(t).ok();
    let r4 = Ipv4Addr::from_str(t).ok().map(IpAddr::V4);
    let r6 = Ipv6Addr::from_str(t).ok().map(IpAddr::V6);
    emit_case("PARSE", &format!("PARSE {} {} {} {}", g_str(t), g_oip(r), g_oip(r4), g_oip(r6)));
}
fn sockp_case(t: &str) {
    let r = SocketAddr::from_str(t).ok();
    emit_case("SOCK", &format!("SOCKP {} {}", g_str(t), g_sock(r)));
}
fn socks_case(s: &SocketAddr) {
    let scope = match s { SocketAddr::V6(v) => v.scope_id(), SocketAddr::V4(_) => 0 };
    emit_case("SOCK", &format!("SOCKS {} {} {} {}", g_ip(&s.ip()), s.port(), scope, g_str(&s.to_string())));
}

fn gen_port(r: &mut Rng) -> u16 {
    if r.chance(2, 3) { *r.pick(&[0u16, 1, 9, 10, 80, 99, 100, 999, 1000, 9999, 10000, 25565, 65534, 65535]) } else { r.next() as u16 }
}
fn gen_scope(r: &mut Rng) -> u32 {
    match r.below(4) { 0 | 1 => 0, 2 => *r.pick(&[1u32, 7, 10, 4294967295, 4294967294, 1000000000]), _ => r.next() as u32 }
}
fn gen_sock(r: &mut Rng) -> SocketAddr {
    match gen_ip(r) {
        IpAddr::V4(a) => SocketAddr::V4(SocketAddrV4::new(a, gen_port(r))),
        IpAddr::V6(a) => SocketAddr::V6(SocketAddrV6::new(a, gen_port(r), r.next() as u32, gen_scope(r))),
    }
}

fn main() {
    let mut r = Rng::from_env();
    let scale: u64 = std::env::var("VERIF_SCALE").ok().and_then(|s| s.parse().ok()).unwrap_or(1).max(1);
    let (mut n_show, mut n_parse, mut n_sock) = (0u64, 0u64, 0u64);
    let (mut n_ok, mut n_err, mut n_sok, mut n_serr) = (0u64, 0u64, 0u64, 0u64);

    // ---------------- SHOW
    let mut shown: Vec<IpAddr> = vec![];
    // every zero / non-zero pattern, several value draws each
    for rep in 0..(2 * scale) {
        for pat in 0..256u32 {
            let a = if rep == 0 {
                // all non-zero segments equal to a representative value
                let v = *r.pick(&[1u16, 0xff, 0xabc, 0xffff]);
                let mut s = [0u16; 8];
                for (i, slot) in s.iter_mut().enumerate() { if pat >> i & 1 == 0 { *slot = v; } }
                seg6(s)
            } else { v6_pattern(&mut r, pat) };
            shown.push(IpAddr::V6(a));
        }
    }
    for a in special_v6(&mut r) { shown.push(IpAddr::V6(a)); }
    // IPv4 boundaries
    for x in OCT { for pos in 0..4 { let mut o = [1u8, 20, 133, 0]; o[pos] = x; shown.push(IpAddr::V4(Ipv4Addr::from(o))); } }
    for a in [Ipv4Addr::UNSPECIFIED, Ipv4Addr::BROADCAST, Ipv4Addr::LOCALHOST] { shown.push(IpAddr::V4(a)); }
    for _ in 0..(200 * scale) { shown.push(IpAddr::V4(gen_v4(&mut r))); }
    for _ in 0..(300 * scale) { shown.push(IpAddr::V6(gen_v6(&mut r))); }
    for a in &shown { show_case(a); n_show += 1; }

    // ---------------- PARSE
    let mut texts: Vec<String> = vec![];
    for t in BAD_IP { texts.push(t.to_string()); }
    // valid outputs of Display (a sample of the shown values plus fresh ones)
    for (i, a) in shown.iter().enumerate() { if i % 4 == 0 { texts.push(a.to_string()); } }
    // alternative valid spellings
    for _ in 0..(500 * scale) { let a = gen_v6(&mut r); texts.push(spell_v6(&mut r, &a)); }
    for a in special_v6(&mut r) { texts.push(spell_v6(&mut r, &a)); texts.push(spell_v6(&mut r, &a)); }
    // upper-cased / fully padded / uncompressed forms
    for _ in 0..(60 * scale) {
        let a = gen_v6(&mut r);
        let s = a.segments();
        texts.push(a.to_string().to_uppercase());
        texts.push(s.iter().map(|g| format!("{:04x}", g)).collect::<Vec<_>>().join(":"));
        texts.push(s.iter().map(|g| format!("{:X}", g)).collect::<Vec<_>>().join(":"));
        texts.push(s.iter().map(|g| format!("{:05x}", g)).collect::<Vec<_>>().join(":"));
    }
    // IPv4 spellings: leading zeros, out of range, wrong arity
    for _ in 0..(120 * scale) {
        let o: Vec<String> = (0..4).map(|_| match r.below(8) {
            0 => format!("0{}", gen_octet(&mut r)),
            1 => format!("{}", 256 + r.below(800)),
            2 => format!("00{}", r.below(10)),
            _ => format!("{}", gen_octet(&mut r)),
        }).collect();
        let k = if r.chance(1, 8) { *r.pick(&[3usize, 5]) } else { 4 };
        let mut parts = o.clone(); parts.push("7".into());
        texts.push(parts[..k].join("."));
    }
    // mutations of valid texts
    for _ in 0..(450 * scale) {
        let base = if r.chance(1, 2) { gen_ip(&mut r).to_string() } else { let a = gen_v6(&mut r); spell_v6(&mut r, &a) };
        texts.push(mutate(&mut r, &base));
    }
    for _ in 0..(150 * scale) { texts.push(random_text(&mut r)); }
    // group-count family: k groups with `::` at every position
    for k in 0..=9usize {
        for pos in 0..=k {
            let g: Vec<String> = (1..=k).map(|i| format!("{:x}", i)).collect();
            texts.push(format!("{}::{}", g[..pos].join(":"), g[pos..].join(":")));
        }
        let g: Vec<String> = (1..=k).map(|i| format!("{:x}", i)).collect();
        texts.push(g.join(":"));
        // the same with an embedded IPv4 tail (allowed only while two slots are left)
        for pos in 0..=k {
            let sep = if pos < k { ":" } else { "" };
            texts.push(format!("{}::{}{}1.2.3.4", g[..pos].join(":"), g[pos..].join(":"), sep));
        }
        texts.push(format!("{}{}9.8.7.6", g.join(":"), if k > 0 { ":" } else { "" }));
    }
    let mut seen = HashSet::new();
    for t in &texts {
        if !seen.insert(t.clone()) { continue; }
        parse_case(t); n_parse += 1;
        if IpAddr::from_str(t).is_ok() { n_ok += 1 } else { n_err += 1 }
    }

    // ---------------- SOCK
    let mut socks: Vec<SocketAddr> = vec![];
    for _ in 0..(300 * scale) { socks.push(gen_sock(&mut r)); }
    for a in special_v6(&mut r) { socks.push(SocketAddr::V6(SocketAddrV6::new(a, gen_port(&mut r), 0, gen_scope(&mut r)))); }
    for s in &socks { socks_case(s); n_sock += 1; }
    let mut stexts: Vec<String> = vec![];
    for s in &socks { stexts.push(s.to_string()); }
    for p in PORTS {
        stexts.push(format!("1.2.3.4:{}", p));
        stexts.push(format!("[::1]:{}", p));
        let a = gen_v6(&mut r);
        stexts.push(format!("[{}]:{}", spell_v6(&mut r, &a), p));
        stexts.push(format!("{}:{}", gen_v4(&mut r), p));
    }
    for sc in SCOPES {
        stexts.push(format!("[fe80::1{}]:80", sc));
        stexts.push(format!("[::{}]:80", sc));
        let a = gen_v6(&mut r);
        stexts.push(format!("[{}{}]:{}", spell_v6(&mut r, &a), sc, gen_port(&mut r)));
        stexts.push(format!("1.2.3.4{}:80", sc));
    }
    for t in ["", ":", ":80", "1.2.3.4", "1.2.3.4:", "[1.2.3.4]:80", "::1:80", "[::1]", "[::1]:", "[::1]80", "[::1:80", "::1]:80",
              "[[::1]]:80", "[::1] :80", " [::1]:80", "[::1]:80 ", "[ ::1]:80", "[::1 ]:80", "[::ffff:1.2.3.4]:1", "[1:2:3:4:5:6:7::8]:1",
              "[1:2:3:4:5:6:7::]:1", "[]:80", "[:]:80", "[::]:0", "01.2.3.4:80", "1.2.3.4:80:90", "localhost:80", "[::1%]:80",
              "[::1%1", "1.2.3.4:65535", "255.255.255.255:65535", "[ffff:ffff:ffff:ffff:ffff:ffff:ffff:ffff%4294967295]:65535",
              "[1.2.3.4::]:80", "[::1.2.3.4]:80", "[0:0:0:0:0:0:1.2.3.4]:80"] {
        stexts.push(t.to_string());
    }
    for _ in 0..(250 * scale) { let b = gen_sock(&mut r).to_string(); stexts.push(mutate(&mut r, &b)); }
    for _ in 0..(60 * scale) {
        let a = gen_v6(&mut r);
        stexts.push(format!("[{}]:{}", spell_v6(&mut r, &a), *r.pick(PORTS)));
    }
    let mut seen = HashSet::new();
    for t in &stexts {
        if !seen.insert(t.clone()) { continue; }
        sockp_case(t); n_sock += 1;
        if SocketAddr::from_str(t).is_ok() { n_sok += 1 } else { n_serr += 1 }
    }

    emit_note("show_cases", &n_show.to_string());
    emit_note("parse_cases", &format!("{} (accepted {}, rejected {})", n_parse, n_ok, n_err));
    emit_note("sock_cases", &format!("{} (parse accepted {}, rejected {})", n_sock, n_sok, n_serr));
    // behaviour probes of the std this binary was built with
    emit_note("ipv4_compatible_special_cased", &g_bool(seg6([0, 0, 0, 0, 0, 0, 0x102, 0x304]).to_string() == "::1.2.3.4"));
    emit_note("ipv4_mapped_special_cased", &g_bool(seg6([0, 0, 0, 0, 0, 0xffff, 0x102, 0x304]).to_string() == "::ffff:1.2.3.4"));
    emit_note("octet_leading_zero_rejected", &g_bool(IpAddr::from_str("01.2.3.4").is_err()));
}
