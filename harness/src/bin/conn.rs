//! Connection-level correspondence driver: scenario families for C01-C04, C06-C08, C10.
//! Every case is one run of the real `Connection::listen`; the Gallina term printed per
//! case carries the inputs, the oracle tables and the observation.
use passage_adapters::authentication::{Profile, ProfileProperty};
use passage_adapters::{ServerStatus, Target};
use passage_protocol::cookie::{AuthCookie, SessionCookie};
use std::collections::HashMap;
use std::net::SocketAddr;
use uuid::Uuid;
use vh::connrun::*;
use vh::pipe::WriteResp;
use vh::*;

#[global_allocator]
static ALLOC: CountingAlloc = CountingAlloc;

#[derive(Clone, Copy, PartialEq, Debug)]
enum Intent { Status, Login, Transfer }

fn rnd_ip(r: &mut Rng) -> std::net::IpAddr {
    match r.below(6) {
        0 => "::1".parse().unwrap(),
        1 => "2001:db8::1".parse().unwrap(),
        2 => std::net::IpAddr::V6(std::net::Ipv6Addr::new(r.next() as u16, 0, 0, r.next() as u16, 0, 0, 0, r.next() as u16)),
        3 => "::ffff:10.1.2.3".parse().unwrap(),
        _ => std::net::IpAddr::V4(std::net::Ipv4Addr::new(r.below(256) as u8, r.below(256) as u8, r.below(256) as u8, r.below(256) as u8)),
    }
}
fn rnd_sa(r: &mut Rng) -> SocketAddr { SocketAddr::new(rnd_ip(r), *r.pick(&[0u16, 1, 25565, 65535, 40000])) }
fn rnd_name(r: &mut Rng) -> String {
    match r.below(7) { 0 => "Notch".into(), 1 => "jeb_".into(), 2 => r.utf8(12),
        // names a "sanitising" reader would alter: trailing / leading / inner whitespace, NUL, NBSP
        5 => format!("Player{}{}", r.below(1000), r.pick(&[" ", "\0", "\t", "\r\n", "\u{a0}", "  "])),
        6 => format!("{}Player {}", r.pick(&[" ", "\u{a0}", ""]), r.below(1000)),
        _ => format!("Player{}", r.below(1000)) }
}
fn rnd_target(r: &mut Rng, i: usize) -> Target {
    let mut meta = HashMap::new();
    for k in 0..r.below(3) { meta.insert(format!("k{}", k), format!("v{}", r.below(5))); }
    Target { identifier: format!("srv-{}-{}", i, r.below(100)), address: rnd_sa(r), meta }
}
fn rnd_props(r: &mut Rng) -> Vec<ProfileProperty> {
    // one profile in fourteen is as heavy as real ones get: three signed properties of about 2.4 KB each (a signed cookie
    // of more than 5 KiB, still below the default frame limit when the client presents it again)
    if r.chance(1, 14) {
        return (0..3).map(|i| ProfileProperty { name: format!("textures{}", i), value: "dGV4dHVyZXM".repeat(150 + r.below(20) as usize),
                                               signature: Some("c2ln".repeat(150 + r.below(10) as usize)) }).collect();
    }
    (0..r.below(3)).map(|i| ProfileProperty { name: format!("textures{}", i), value: r.utf8(10), signature: if r.chance(1, 2) { Some(format!("sig{}", r.below(99))) } else { None } }).collect()
}
fn lat(r: &mut Rng) -> u64 {
    // latencies from a few ms to several keep-alive periods; odd offsets avoid ties with ticks and frames
    *r.pick(&[1u64, 7, 153, 1501, 15901, 16003, 17011, 33007, 48013, 81017]) + 2 * r.below(20)
}
fn short_lat(r: &mut Rng) -> u64 { *r.pick(&[1u64, 7, 153, 1501]) + 2 * r.below(20) }

fn client_info_body(locale: &str, r: &mut Rng) -> Vec<u8> {
    let mut b = Vec::new();
    put_string(&mut b, locale.as_bytes());
    b.push(r.next() as u8);
    put_varint(&mut b, r.below(3) as i32);
    b.push(r.below(2) as u8);
    b.push(r.next() as u8);
    put_varint(&mut b, r.below(2) as i32);
    b.push(r.below(2) as u8);
    b.push(r.below(2) as u8);
    put_varint(&mut b, r.below(3) as i32);
    b
}
fn handshake_body(proto: i32, host: &str, port: u16, next: i32) -> Vec<u8> {
    let mut b = Vec::new();
    put_varint(&mut b, proto);
    put_string(&mut b, host.as_bytes());
    b.extend_from_slice(&port.to_be_bytes());
    put_varint(&mut b, next);
    b
}
fn login_start_body(name: &str, id: &Uuid) -> Vec<u8> {
    let mut b = Vec::new();
    put_string(&mut b, name.as_bytes());
    b.extend_from_slice(&id.as_u128().to_be_bytes());
    b
}
fn cookie_resp_body(key: &str, payload: &Option<Vec<u8>>) -> Vec<u8> {
    let mut b = Vec::new();
    put_string(&mut b, key.as_bytes());
    match payload { Some(p) => { b.push(1); put_string(&mut b, p); } None => b.push(0) }
    b
}

#[derive(Clone, Debug)]
struct Params {
    intent: Intent,
    proto: i32,
    host: String,
    port: u16,
    name: String,
    uuid: Uuid,
    session_payload: Option<Vec<u8>>,
    auth_payload: Option<Vec<u8>>,
    enc: (TokenMode, SecretMode, KeyMode),
    locale: String,
    ci_delay: u64,
    ka: KaPolicy,
    ping: u64,
}

fn valid_auth_cookie(r: &mut Rng, client: &SocketAddr, secret: &[u8], age: i64, expiry: u64, ip_other: bool) -> Vec<u8> {
    let ip = if ip_other { "203.0.113.77".parse().unwrap() } else { client.ip() };
    valid_auth_cookie_for(r, ip, client.port(), secret, age, expiry)
}
fn valid_auth_cookie_for(r: &mut Rng, ip: std::net::IpAddr, port: u16, secret: &[u8], age: i64, expiry: u64) -> Vec<u8> {
    let c = AuthCookie {
        timestamp: (FIXED_NOW as i64 - age) as u64,
        client_addr: SocketAddr::new(ip, if r.chance(1, 2) { port } else { r.below(60000) as u16 }),
        user_name: format!("Cookie{}", r.below(100)),
        user_id: Uuid::from_u128(((r.next() as u128) << 64) | r.next() as u128),
        target: if r.chance(1, 2) { Some("srv-old".into()) } else { None },
        profile_properties: rnd_props(r),
        extra: Default::default(),
    };
    let _ = expiry;
    passage_protocol::cookie::sign(&serde_json::to_vec(&c).unwrap(), secret)
}

fn base_params(r: &mut Rng, intent: Intent) -> Params {
    Params {
        intent, proto: *r.pick(&[769, 770, 0, -1, 47]),
        host: r.pick(&["play.example.org", "localhost", "", "mc.example.com."]).to_string(),
        port: *r.pick(&[25565u16, 0, 65535, 1234]),
        name: rnd_name(r), uuid: Uuid::from_u128(((r.next() as u128) << 64) | r.next() as u128),
        session_payload: None, auth_payload: None,
        enc: (TokenMode::Echo, SecretMode::Good16, KeyMode::ServerKey),
        locale: r.pick(&["en_us", "de_de", "de_DE", "fr", "zh_CN_x", "", "aaaaaaaaaaaaaaa\u{e9}", "zh_Hant_TW_\u{4e2d}\u{6587}_\u{7e41}\u{9ad4}", "x-\u{1f600}\u{1f600}\u{1f600}\u{1f600}\u{1f600}"]).to_string(),
        ci_delay: 10 + 2 * r.below(30), ka: KaPolicy::Prompt(51 + 2 * r.below(100)), ping: r.next(),
    }
}

fn base_ads(r: &mut Rng) -> AdScript {
    let n = r.below(5) as usize;
    let targets: Vec<Target> = (0..n).map(|i| rnd_target(r, i)).collect();
    let mut loc_table: HashMap<String, HashMap<String, String>> = HashMap::new();
    for l in ["en_us", "de", "fr_FR"] {
        if r.chance(2, 3) {
            let mut m = HashMap::new();
            if r.chance(4, 5) { m.insert("disconnect_no_target".to_string(), format!("no target \u{2013} kein Ziel verf\u{fc}gbar ({})", l)); }
            if r.chance(4, 5) { m.insert("disconnect_timeout".to_string(), format!("timed out \u{2013} Zeit\u{fc}berschreitung ({})", l)); }
            loc_table.insert(l.to_string(), m);
        }
    }
    AdScript {
        status: (Ok(if r.chance(1, 5) { None } else { Some(ServerStatus::default()) }), short_lat(r)),
        auth: (Ok(Profile { id: Uuid::from_u128(r.next() as u128), name: rnd_name(r), properties: rnd_props(r), profile_actions: vec![] }), short_lat(r)),
        discover: (Ok(targets), short_lat(r)),
        filter: (FilterMode::Identity, short_lat(r)),
        select: (SelectMode::First, short_lat(r)),
        loc_table, loc_default: "en_us".into(), loc_fail: false, loc_lat: 0,
    }
}

fn build2(fam: &'static str, r: &mut Rng, p: &Params, secret: Option<Vec<u8>>, note: String) -> Scenario {
    let ads = base_ads(r);
    let client = rnd_sa(r);
    build(fam, r, p, ads, secret, client, note)
}

fn build(fam: &'static str, r: &mut Rng, p: &Params, ads: AdScript, secret: Option<Vec<u8>>, client: SocketAddr, note: String) -> Scenario {
    let mut acts = vec![];
    let j = |r: &mut Rng| Act::Sleep(1 + 2 * r.below(15));
    let next = match p.intent { Intent::Status => 1, Intent::Login => 2, Intent::Transfer => 3 };
    acts.push(j(r));
    acts.push(Act::Frame { id: 0, body: handshake_body(p.proto, &p.host, p.port, next) });
    acts.push(j(r));
    if p.intent == Intent::Status {
        acts.push(Act::Frame { id: 0, body: vec![] });
        acts.push(Act::WaitServer { id: 0 });
        acts.push(j(r));
        acts.push(Act::Frame { id: 1, body: p.ping.to_be_bytes().to_vec() });
        acts.push(Act::WaitServer { id: 1 });
        acts.push(j(r));
        acts.push(Act::Eof);
    } else {
        acts.push(Act::Frame { id: 0, body: login_start_body(&p.name, &p.uuid) });
        acts.push(Act::WaitServer { id: 5 });
        acts.push(j(r));
        acts.push(Act::Frame { id: 4, body: cookie_resp_body("passage:session", &p.session_payload) });
        if p.intent == Intent::Transfer && secret.is_some() {
            acts.push(Act::WaitServer { id: 5 });
            acts.push(j(r));
            acts.push(Act::Frame { id: 4, body: cookie_resp_body("passage:authentication", &p.auth_payload) });
        }
        acts.push(Act::WaitServer { id: 1 });
        acts.push(j(r));
        acts.push(Act::EncResponse { token: p.enc.0.clone(), secret: p.enc.1.clone(), key: p.enc.2.clone() });
        acts.push(Act::WaitServer { id: 2 });
        acts.push(j(r));
        acts.push(Act::SetKa(p.ka.clone()));
        acts.push(Act::Frame { id: 3, body: vec![] });
        acts.push(Act::Sleep(p.ci_delay));
        acts.push(Act::Frame { id: 0, body: client_info_body(&p.locale, r) });
        acts.push(Act::WaitDone);
        acts.push(j(r));
        acts.push(Act::Eof);
    }
    Scenario { family: fam, client_addr: client, secret, max_len: 10_000, expiry: 21_600, ads, acts, clock: FIXED_NOW,
               max_read_chunk: 0, write_script: vec![], tear_at: None, wsched: vec![], glue: false, note }
}

// ------------------------------------------------------------------ printing
fn jres_session(p: &[u8]) -> String {
    match serde_json::from_slice::<Option<SessionCookie>>(p) {
        Ok(None) => "(JOk None)".into(),
        Ok(Some(c)) => format!("(JOk (Some {}))", g_session_cookie(&c)),
        Err(_) => "JErr".into(),
    }
}
fn jres_auth(p: &[u8]) -> String {
    match serde_json::from_slice::<AuthCookie>(p) { Ok(c) => format!("(JOk {})", g_auth_cookie(&c)), Err(_) => "JErr".into() }
}

fn parse_cookie_resp(body: &[u8]) -> Option<Option<Vec<u8>>> {
    let (l, n) = get_varint(body)?;
    if l < 0 { return None; }
    let mut o = n.checked_add(l as usize)?;
    let has = *body.get(o)?;
    o += 1;
    if has != 1 { return Some(None); }
    let (pl, n2) = get_varint(body.get(o..)?)?;
    o += n2;
    if pl < 0 { return None; }
    Some(Some(body.get(o..o.checked_add(pl as usize)?)?.to_vec()))
}
/// (key, payload) of a Store Cookie body, defensively
fn parse_store_cookie(body: &[u8]) -> Option<(Vec<u8>, Vec<u8>)> {
    let (kl, n) = get_varint(body)?;
    if kl < 0 { return None; }
    let key = body.get(n..n.checked_add(kl as usize)?)?.to_vec();
    let rest = body.get(n + kl as usize..)?;
    let (pl, n2) = get_varint(rest)?;
    if pl < 0 { return None; }
    let payload = rest.get(n2..n2.checked_add(pl as usize)?)?.to_vec();
    Some((key, payload))
}

fn print_case(sc: &Scenario, rec: &RunRecord, pubkey: &[u8]) {
    let cfg = format!("{{| cf_client := {}; cf_secret := {}; cf_max_len := {}; cf_expiry := {}; cf_pubkey := {} |}}",
                      g_sa(&sc.client_addr), g_opt(sc.secret.as_ref().map(|s| g_hex(s))), sc.max_len, sc.expiry, g_hex(pubkey));
    let rsa = g_list(&rec.rsa.iter().map(|(c, p)| format!("({}, {})", g_hex(c), g_opt(p.as_ref().map(|x| g_hex(x))))).collect::<Vec<_>>());
    // cookie payloads the client sent (login phase frames with id 4)
    let mut psess = vec![]; let mut pauth = vec![];
    // the frames the client sent: as scripted, or - when raw segments were delivered - reassembled from the bytes
    let mut client_frames: Vec<Option<(i32, Vec<u8>)>> = rec.inbox.iter().map(|(_, f)| f.clone()).collect();
    if !rec.framed {
        client_frames.clear();
        let all: Vec<u8> = rec.raw_in.iter().flat_map(|(_, b)| b.iter().copied()).collect();
        let mut o = 0usize;
        while o < all.len() {
            let Some((len, n1)) = get_varint(&all[o..]) else { break };
            if len <= 0 || o + n1 + len as usize > all.len() { break; }
            let inner = &all[o + n1..o + n1 + len as usize];
            let Some((id, n2)) = get_varint(inner) else { break };
            client_frames.push(Some((id, inner[n2..].to_vec())));
            o += n1 + len as usize;
        }
    }
    for f in client_frames.iter() {
        if let Some((4, body)) = f {
            if let Some(Some(p)) = parse_cookie_resp(body) {
                psess.push(format!("({}, {})", g_hex(&p), jres_session(&p)));
                if p.len() >= 32 { pauth.push(format!("({}, {})", g_hex(&p[32..]), jres_auth(&p[32..]))); }
            }
        }
    }
    // cookies the server stored: config-phase StoreCookie frames (id 0x0A)
    let mut sauth = vec![]; let mut ssess = vec![]; let mut uuid = vec![0u8; 16];
    let mut in_cfg = false;
    for (_, id, body) in rec.sent.iter() {
        if !in_cfg { if *id == 2 && rec.shared_secret.is_some() { in_cfg = true; } continue; }
        if *id == 0x0A {
            if let Some((key, payload)) = parse_store_cookie(body) {
                if key == b"passage:authentication" && payload.len() >= 32 {
                    if let Ok(c) = serde_json::from_slice::<AuthCookie>(&payload[32..]) { sauth.push(format!("({}, {})", g_auth_cookie(&c), g_hex(&payload[32..]))); }
                } else if key == b"passage:session" {
                    if let Ok(c) = serde_json::from_slice::<SessionCookie>(&payload) {
                        uuid = c.id.as_u128().to_be_bytes().to_vec();
                        ssess.push(format!("({}, {})", g_session_cookie(&c), g_hex(&payload)));
                    }
                }
            }
        }
    }
    let res = |k: &str| rec.results.get(k).cloned().unwrap_or("(RErr, 0)".into());
    let loc = g_list(&rec.loc.iter().map(|(a, b)| format!("({}, {})", a, b)).collect::<Vec<_>>());
    let inbox = g_list(&rec.inbox.iter().map(|(t, f)| match f {
        Some((id, body)) => format!("({}, IFrame {} {})", t, g_z(*id), g_hex(body)),
        None => format!("({}, IEof)", t) }).collect::<Vec<_>>());
    let sent = g_list(&rec.sent.iter().map(|(t, id, b)| format!("({}, {}, {})", t, g_z(*id), g_hex(b))).collect::<Vec<_>>());
    let calls = g_list(&rec.calls.iter().map(|(t, c)| format!("({}, {})", t, c)).collect::<Vec<_>>());
    let kaids = g_list(&rec.ka_ids.iter().map(|k| g_hex(&k.to_be_bytes())).collect::<Vec<_>>());
    // ties: two inputs at the same instant as a tick / an adapter completion make the unbiased select ambiguous
    let mut flags = 0;
    if !rec.framed { flags |= 1; }
    if rec.out_garbled { flags |= 2; }
    if sc.write_script.iter().any(|w| matches!(w, WriteResp::Pending)) { flags |= 4; }
    // bit 3: a write was refused half way (tear_at) and a raced adapter call completed before the writer was
    // woken 2 ms later: the keep_alive() future owning the unfinished write_all was dropped (class K3)
    if let Some(tp) = rec.torn_pending_at {
        let done: Vec<u64> = rec.calls.iter().filter(|c| c.1.starts_with("CDisco") || c.1.starts_with("(CFilt") || c.1.starts_with("(CSele"))
            .map(|c| c.0 + match &c.1[..6] { "CDisco" => sc.ads.discover.1, "(CFilt" => sc.ads.filter.1, _ => sc.ads.select.1 }).collect();
        if done.iter().any(|h| tp <= *h && *h < tp + 2) { flags |= 8; }
        flags |= 4;   // delayed write: compared without send times
    }
    // bit 4: the client's shared secret was not a 16-byte AES key, and the server nevertheless wrote something after
    // the Encryption Response (a login cannot go on under a key the client does not have)
    if let (Some(ss), Some(n0)) = (&rec.shared_secret, rec.out_len_at_enc_response) {
        let total: usize = rec.wire_out.iter().map(|c| c.1.len()).sum();
        if ss.len() != 16 && total > n0 { flags |= 16; }
    }
    // bit 5: the handler kept reading after the end of the client's stream (more than 1000 reads answered "end of stream")
    if rec.eof_spin { flags |= 32; }
    let biggest_in = rec.raw_in.iter().map(|x| x.1.len()).max().unwrap_or(0);
    let mut segs: Vec<String> = rec.raw_in.iter().map(|(t, b)| format!("({}, Some {})", t, g_hex(b))).collect();
    if let Some(t) = rec.eof_at { segs.push(format!("({}, None)", t)); }
    let segs = g_list(&segs);
    // global order of the observable events: 0 = next send, 1 = next call
    let mut ord: Vec<(u64, u8)> = rec.sent_seq.iter().map(|s| (*s, 0u8)).chain(rec.call_seq.iter().map(|s| (*s, 1u8))).collect();
    ord.sort();
    let order = g_list(&ord.iter().map(|(_, k)| format!("{}", k)).collect::<Vec<_>>());
    emit_case(sc.family, &format!(
        "{{| cc_cfg := {}; cc_rsa := {}; cc_psess := {}; cc_pauth := {}; cc_sauth := {}; cc_ssess := {}; \
         cc_status := {}; cc_auth := {}; cc_discover := {}; cc_filter := {}; cc_select := {}; cc_loc := {}; \
         cc_token := {}; cc_uuid := {}; cc_kaids := {}; cc_now := {}; cc_inbox := {}; cc_sent := {}; cc_calls := {}; \
         cc_outcome := {}; cc_end := {}; cc_flags := {}; cc_maxalloc := {}; cc_biggest_in := {}; cc_order := {}; cc_note := \"{}\"%string; cc_segs := {}; cc_eof := {}; cc_writes := {}; cc_wsched := {}; cc_loclat := {}; cc_wire := {} |}}",
        cfg, rsa, g_list(&psess), g_list(&pauth), g_list(&sauth), g_list(&ssess),
        res("status"), res("auth"), res("discover"), res("filter"), res("select"), loc,
        g_hex(&rec.token), g_hex(&uuid), kaids, sc.clock, inbox, sent, calls, rec.outcome, rec.end_ms, flags, rec.max_alloc, biggest_in, order, sc.note.replace('"', "'").replace('\\', "/"), segs, rec.eof_at.map(|t| t as i64).unwrap_or(-1),
        g_list(&rec.write_calls.iter().map(|(_, o, a)| format!("({}, {})", o, g_z(*a))).collect::<Vec<_>>()),
        g_list(&sc.wsched.iter().map(|(t, c)| format!("({}, {})", t, g_opt(c.map(|n| n.to_string())))).collect::<Vec<_>>()),
        sc.ads.loc_lat,
        g_list(&rec.wire_out.iter().map(|(t, b)| format!("({}, {})", t, b.len())).collect::<Vec<_>>())));
}

/// payload of the StoreCookie (configuration phase, id 0x0A) with this key, if the server sent one
fn stored_cookie(rec: &RunRecord, key: &[u8]) -> Option<Vec<u8>> {
    let mut in_cfg = false;
    for (_, id, body) in rec.sent.iter() {
        if !in_cfg { if *id == 2 && rec.shared_secret.is_some() { in_cfg = true; } continue; }
        if *id == 0x0A {
            let (k, payload) = parse_store_cookie(body)?;
            if k == key { return Some(payload); }
        }
    }
    None
}
/// (uuid, name) of the Login Success the server sent
fn login_success_identity(rec: &RunRecord) -> Option<(u128, Vec<u8>)> {
    if rec.shared_secret.is_none() { return None; }
    for (_, id, body) in rec.sent.iter() {
        if *id == 2 && body.len() >= 17 {
            let u = u128::from_be_bytes(body[..16].try_into().ok()?);
            let (l, n) = get_varint(&body[16..])?;
            if l < 0 { return None; }
            return Some((u, body.get(16 + n..(16 + n).checked_add(l as usize)?)?.to_vec()));
        }
    }
    None
}
/// should_authenticate flag of the Encryption Request
fn enc_request_flag(rec: &RunRecord) -> Option<bool> {
    for (_, id, body) in rec.sent.iter() {
        if *id == 1 && body.len() > 10 { return Some(*body.last()? == 1); }
    }
    None
}

fn main() {
    quiet_panics();
    let mut r = Rng::from_env();
    let scale: usize = std::env::var("VERIF_SCALE").ok().and_then(|s| s.parse().ok()).unwrap_or(1);
    let fams: Vec<String> = std::env::var("VERIF_FAMILIES").unwrap_or("BASE".into()).split(',').map(|s| s.to_string()).collect();
    let pubkey = passage_protocol::crypto::ENCODED_PUB.clone();
    let mut hist: HashMap<String, usize> = HashMap::new();
    let mut run = |sc: Scenario, r: &mut Rng| {
        let rec = run_scenario(&sc, r);
        // a keep-alive tick that is overdue (the handler was blocked in a write) at the very instant a raced adapter call
        // is started: tokio's unbiased select! polls the two branches in random order, the run is not determined by its
        // inputs.  Visible as a write attempted at the instant a raced call was started; such runs are not printed.
        if sc.family == "WCAP" {
            // boundary instants of the races: every start of a raced call, and the completions of discover / filter
            // (where the next race starts at once).  Which branch of the select! ran first cannot be told from outside,
            // and may decide whether the next call is made at all: any write or timeout localization at such an instant.
            let mut bounds: Vec<u64> = vec![];
            for (t, c) in rec.calls.iter() {
                if c.starts_with("CDisco") { bounds.push(*t); bounds.push(*t + sc.ads.discover.1.max(1)); }
                else if c.starts_with("(CFilt") { bounds.push(*t); bounds.push(*t + sc.ads.filter.1.max(1)); }
                else if c.starts_with("(CSele") { bounds.push(*t); }
            }
            // (a refused write that is merely polled again - same bytes offered, refused again - is not an action)
            let repoll = |i: usize| i > 0 && rec.write_calls[i].2 < 0 && rec.write_calls[i - 1].2 < 0 && rec.write_calls[i].1 == rec.write_calls[i - 1].1;
            let tie = rec.write_calls.iter().enumerate().any(|(i, w)| bounds.contains(&w.0) && !repoll(i))
                || rec.calls.iter().any(|(t, c)| c.starts_with("(CLocalize") && c.contains(&g_hex(b"disconnect_timeout")) && bounds.contains(t));
            if tie { *hist.entry("WCAP:tie-not-printed".to_string()).or_default() += 1; return; }
        }
        *hist.entry(format!("{}:{}", sc.family, rec.outcome)).or_default() += 1;
        let mut sc = sc;
        // a case run under the REAL wall clock (clock 0): the model is given the time at which the run ended
        if sc.clock == 0 { sc.clock = std::time::SystemTime::now().duration_since(std::time::UNIX_EPOCH).unwrap().as_secs(); }
        print_case(&sc, &rec, &pubkey);
    };
    for fam in fams.iter() {
        match fam.as_str() {
            "BASE" => {
                for i in 0..(24 * scale) {
                    let intent = *r.pick(&[Intent::Status, Intent::Login, Intent::Login, Intent::Transfer]);
                    let p = base_params(&mut r, intent);
                    let ads = base_ads(&mut r);
                    let sl = *r.pick(&[1usize, 16, 64, 200]);
                    let secret = if r.chance(2, 3) { Some(r.bytes(sl)) } else { None };
                    let client = rnd_sa(&mut r);
                    let sc = build("BASE", &mut r, &p, ads, secret, client, format!("base {}", i));
                    run(sc, &mut r);
                }
            }
            "C01" => {
                // verdict x response mode x intent
                let modes: Vec<(TokenMode, SecretMode, KeyMode)> = vec![
                    (TokenMode::Echo, SecretMode::Good16, KeyMode::ServerKey),
                    (TokenMode::FlipBit(0), SecretMode::Good16, KeyMode::ServerKey),
                    (TokenMode::FlipBit(255), SecretMode::Good16, KeyMode::ServerKey),
                    (TokenMode::Stale(vec![7u8; 32]), SecretMode::Good16, KeyMode::ServerKey),
                    (TokenMode::Empty, SecretMode::Good16, KeyMode::ServerKey),
                    (TokenMode::Random(32), SecretMode::Good16, KeyMode::ServerKey),
                    (TokenMode::Random(31), SecretMode::Good16, KeyMode::ServerKey),
                    (TokenMode::Echo, SecretMode::Good16, KeyMode::OtherKey),
                    (TokenMode::Echo, SecretMode::Good16, KeyMode::Garbage(128)),
                    (TokenMode::Echo, SecretMode::Good16, KeyMode::Garbage(0)),
                    (TokenMode::Echo, SecretMode::Good16, KeyMode::Garbage(127)),
                    (TokenMode::Echo, SecretMode::Len(0), KeyMode::ServerKey),
                    (TokenMode::Echo, SecretMode::Len(15), KeyMode::ServerKey),
                    (TokenMode::Echo, SecretMode::Len(17), KeyMode::ServerKey),
                    (TokenMode::Echo, SecretMode::Len(32), KeyMode::ServerKey),
                ];
                for rep in 0..scale {
                    for (mi, m) in modes.iter().enumerate() {
                        for verdict in 0..4 {
                            if rep == 0 && mi > 0 && verdict > 1 && (mi + verdict) % 2 == 0 { continue; }
                            let intent = if (mi + verdict + rep) % 3 == 0 { Intent::Transfer } else { Intent::Login };
                            let mut p = base_params(&mut r, intent);
                            p.enc = m.clone();
                            let mut ads = base_ads(&mut r);
                            if let Ok(d) = &mut ads.discover.0 { if d.is_empty() { d.push(rnd_target(&mut r, 0)); } }
                            ads.auth.0 = match verdict {
                                0 => Ok(Profile { id: p.uuid, name: p.name.clone(), properties: vec![], profile_actions: vec![] }),
                                1 => Ok(Profile { id: Uuid::from_u128(r.next() as u128), name: format!("Real{}", r.below(100)), properties: rnd_props(&mut r), profile_actions: vec![] }),
                                2 => Ok(Profile { id: p.uuid, name: format!("{}x", p.name), properties: rnd_props(&mut r), profile_actions: vec![] }),
                                _ => Err(()),
                            };
                            let secret = if r.chance(1, 2) { Some(r.bytes(32)) } else { None };
                            let client = rnd_sa(&mut r);
                            if intent == Intent::Transfer && r.chance(1, 2) {
                                if let Some(s) = &secret { p.auth_payload = Some(valid_auth_cookie(&mut r, &client, s, 10, 21_600, false)); }
                            }
                            let sc = build("C01", &mut r, &p, ads, secret, client, format!("mode {} verdict {}", mi, verdict));
                            run(sc, &mut r);
                        }
                    }
                }
            }
            "C02" => {
                let expiry: u64 = 21_600;
                for rep in 0..scale {
                    let client = rnd_sa(&mut r);
                    let secret_v = r.bytes(*[1usize, 32, 64, 200].get(rep % 4).unwrap());
                    let valid = valid_auth_cookie(&mut r, &client, &secret_v, 100, expiry, false);
                    let mut variants: Vec<(String, Intent, Option<Vec<u8>>, Option<Vec<u8>>)> = vec![];
                    let s = Some(secret_v.clone());
                    variants.push(("valid".into(), Intent::Transfer, s.clone(), Some(valid.clone())));
                    variants.push(("valid-login-intent".into(), Intent::Login, s.clone(), Some(valid.clone())));
                    variants.push(("valid-no-secret".into(), Intent::Transfer, None, Some(valid.clone())));
                    variants.push(("absent".into(), Intent::Transfer, s.clone(), None));
                    variants.push(("empty".into(), Intent::Transfer, s.clone(), Some(vec![])));
                    for age in [expiry as i64 - 1, expiry as i64, expiry as i64 + 1, 0, -5, 10 * expiry as i64] {
                        variants.push((format!("age {}", age), Intent::Transfer, s.clone(), Some(valid_auth_cookie(&mut r, &client, &secret_v, age, expiry, false))));
                    }
                    variants.push(("other-ip".into(), Intent::Transfer, s.clone(), Some(valid_auth_cookie(&mut r, &client, &secret_v, 5, expiry, true))));
                    variants.push(("other-secret".into(), Intent::Transfer, s.clone(), Some(valid_auth_cookie(&mut r, &client, b"another secret", 5, expiry, false))));
                    let trunc: Vec<usize> = if scale >= 8 { (0..valid.len()).collect() } else { vec![0, 1, 31, 32, 33, valid.len() - 1] };
                    for t in trunc { variants.push((format!("trunc {}", t), Intent::Transfer, s.clone(), Some(valid[..t].to_vec()))); }
                    let nflips = if scale >= 8 { valid.len() * 8 } else { 24 };
                    for k in 0..nflips {
                        let bit = if scale >= 8 { k } else { (r.below(valid.len() as u64 * 8)) as usize };
                        let bit = if k < 6 && scale < 8 { [0usize, 7, 255, 256, 263, 300][k] } else { bit };
                        let mut v = valid.clone(); v[bit / 8] ^= 1 << (bit % 8);
                        variants.push((format!("flip {}", bit), Intent::Transfer, s.clone(), Some(v)));
                    }
                    for body in [&b"{}"[..], &b"[]"[..], &b"null"[..], &b"\xff\xfe"[..], &b"{\"timestamp\":1}"[..]] {
                        variants.push((format!("signed-garbage {:?}", body), Intent::Transfer, s.clone(), Some(passage_protocol::cookie::sign(body, &secret_v))));
                    }
                    // addresses that are different IPs but share their low 32 bits / an embedded IPv4
                    let near: [(&str, &str); 8] = [("198.51.100.7", "::c633:6407"), ("::c633:6407", "198.51.100.7"),
                        ("198.51.100.7", "::ffff:198.51.100.7"), ("::ffff:198.51.100.7", "198.51.100.7"),
                        ("::1", "0.0.0.1"), ("0.0.0.1", "::1"), ("::ffff:10.0.0.1", "::10.0.0.1"), ("2001:db8::1", "2001:db8::1")];
                    for (cl, ck) in near.iter() {
                        let cl_sa = SocketAddr::new(cl.parse().unwrap(), 40_001);
                        let payload = valid_auth_cookie_for(&mut r, ck.parse().unwrap(), 40_001, &secret_v, 7, expiry);
                        let mut p = base_params(&mut r, Intent::Transfer);
                        p.auth_payload = Some(payload);
                        let ads = base_ads(&mut r);
                        let sc = build("C02", &mut r, &p, ads, s.clone(), cl_sa, format!("near-ip client {} cookie {}", cl, ck));
                        run(sc, &mut r);
                    }
                    variants.push(("valid-huge-expiry".into(), Intent::Transfer, s.clone(), Some(valid.clone())));
                    variants.push(("old-huge-expiry".into(), Intent::Transfer, s.clone(), Some(valid_auth_cookie(&mut r, &client, &secret_v, 1_000_000, expiry, false))));
                    for (note, intent, secret, payload) in variants {
                        let mut p = base_params(&mut r, intent);
                        p.auth_payload = payload;
                        let mut ads = base_ads(&mut r);
                        if r.chance(1, 4) { ads.auth.0 = Err(()); }
                        if let Ok(d) = &mut ads.discover.0 { if d.is_empty() && r.chance(3, 4) { d.push(rnd_target(&mut r, 0)); } }
                        let huge = note.ends_with("huge-expiry");
                        let mut sc = build("C02", &mut r, &p, ads, secret, client, note);
                        if huge { sc.expiry = u64::MAX - 5; }
                        run(sc, &mut r);
                    }
                    // operator-chosen expiries other than the default, 0 included (every cookie older than the
                    // very second it was issued is then refused), with ages on both sides of each
                    // ONE case per run under the real wall clock (no clock hook): a cookie with a second of life left when it is
                    // requested, presented 2.2 real seconds later - the expiry is judged when the cookie is checked
                    if rep == 0 {
                        let real_now = std::time::SystemTime::now().duration_since(std::time::UNIX_EPOCH).unwrap().as_secs();
                        let mut p = base_params(&mut r, Intent::Transfer);
                        let c = AuthCookie { timestamp: real_now - 59, client_addr: client, user_name: "Stale".into(), user_id: Uuid::from_u128(r.next() as u128),
                            target: None, profile_properties: vec![], extra: Default::default() };
                        p.auth_payload = Some(passage_protocol::cookie::sign(&serde_json::to_vec(&c).unwrap(), &secret_v));
                        let ads = base_ads(&mut r);
                        let mut sc = build("C02", &mut r, &p, ads, s.clone(), client, "real clock: cookie with 1 s left when requested, presented 2.2 s later".into());
                        sc.clock = 0; sc.expiry = 60;
                        // the auth cookie response is the second login Cookie Response (id 4)
                        let pos: Vec<usize> = sc.acts.iter().enumerate().filter(|(_, a)| matches!(a, Act::Frame { id: 4, .. })).map(|(i, _)| i).collect();
                        if pos.len() >= 2 { sc.acts.insert(pos[1], Act::RealSleep(2200)); }
                        run(sc, &mut r);
                    }
                    // secrets as they come out of a file: a trailing line feed, several lines.  Only the WHOLE secret
                    // validates; a cookie tagged under one of its lines, or under the empty key, is a forgery
                    for (sec, forged_keys) in [(b"topsecret\n".to_vec(), vec![b"topsecret".to_vec(), vec![]]),
                                               (b"old-key\nnew-key".to_vec(), vec![b"old-key".to_vec(), b"new-key".to_vec()]),
                                               (b"\n".to_vec(), vec![vec![]])] {
                        let mut keys = vec![(sec.clone(), "whole")];
                        for k in &forged_keys { keys.push((k.clone(), "part")); }
                        for (k, what) in keys {
                            let mut p = base_params(&mut r, Intent::Transfer);
                            p.auth_payload = Some(valid_auth_cookie(&mut r, &client, &k, 7, expiry, false));
                            let ads = base_ads(&mut r);
                            let sc = build("C02", &mut r, &p, ads, Some(sec.clone()), client, format!("multi-line secret, cookie tagged under the {} ({} bytes)", what, k.len()));
                            run(sc, &mut r);
                        }
                    }
                    // the claimed name equals the cookie's name but the claimed UUID is someone else's: the identity
                    // used must still be the cookie's
                    {
                        let mut p = base_params(&mut r, Intent::Transfer);
                        let c = AuthCookie { timestamp: FIXED_NOW - 9, client_addr: client, user_name: p.name.clone(),
                            user_id: Uuid::from_u128(((r.next() as u128) << 64) | r.next() as u128), target: None, profile_properties: rnd_props(&mut r), extra: Default::default() };
                        p.auth_payload = Some(passage_protocol::cookie::sign(&serde_json::to_vec(&c).unwrap(), &secret_v));
                        let mut ads = base_ads(&mut r);
                        if let Ok(d) = &mut ads.discover.0 { if d.is_empty() { d.push(rnd_target(&mut r, 0)); } }
                        let sc = build("C02", &mut r, &p, ads, s.clone(), client, "valid cookie with the claimed name, other uuid".into());
                        run(sc, &mut r);
                    }
                    for (cfg_expiry, ages) in [(0u64, vec![0i64, 1, 30, 21_600]), (1, vec![0, 1, 2]), (60, vec![59, 60, 61, 120, 31_536_000]), (86_400, vec![21_601, 86_400, 86_401]),
                                               // expiries beyond 2^24 s, ages within a float's rounding step of them
                                               (16_777_217, vec![16_777_216, 16_777_217, 16_777_218, 16_777_219]),
                                               (315_360_000, vec![315_359_999, 315_360_000, 315_360_001, 315_360_005, 315_360_017, 315_360_040])] {
                        for age in ages {
                            let mut p = base_params(&mut r, Intent::Transfer);
                            p.auth_payload = Some(valid_auth_cookie(&mut r, &client, &secret_v, age, cfg_expiry, false));
                            let ads = base_ads(&mut r);
                            let mut sc = build("C02", &mut r, &p, ads, s.clone(), client, format!("configured expiry {} age {}", cfg_expiry, age));
                            sc.expiry = cfg_expiry;
                            run(sc, &mut r);
                        }
                    }
                }
            }
            "C03" => {
                for i in 0..(40 * scale) {
                    let intent = *r.pick(&[Intent::Login, Intent::Transfer]);
                    let mut p = base_params(&mut r, intent);
                    p.locale = r.pick(&["de_DE", "de_de", "de", "zh_CN_x", "", "en_us", "fr_FR", "fr_fr_x_y", "_", "de_"]).to_string();
                    let mut ads = base_ads(&mut r);
                    let n = r.below(7) as usize;
                    let mut ts: Vec<Target> = (0..n).map(|k| rnd_target(&mut r, k)).collect();
                    if n > 1 && r.chance(1, 3) { let d = ts[0].clone(); ts.push(d); }
                    ads.discover.0 = if r.chance(1, 10) { Err(()) } else { Ok(ts) };
                    ads.filter.0 = match r.below(8) { 0 => FilterMode::Mask(r.next()), 1 => FilterMode::Reverse, 2 => FilterMode::Empty,
                        3 => FilterMode::Foreign(vec![rnd_target(&mut r, 90)]), 4 => FilterMode::Fail, _ => FilterMode::Identity };
                    ads.select.0 = match r.below(8) { 0 => SelectMode::Last, 1 => SelectMode::Nth(r.below(7) as usize), 2 => SelectMode::NoneSel,
                        3 => SelectMode::Foreign(rnd_target(&mut r, 91)), 4 => SelectMode::Fail, _ => SelectMode::First };
                    ads.loc_table.clear();
                    for l in ["en_us", "en", "de", "de_DE", "zh_CN", "fr", "", "_"] {
                        if r.chance(1, 2) {
                            let mut m = HashMap::new();
                            if r.chance(4, 5) { m.insert("disconnect_no_target".to_string(), format!("kein Ziel verf\u{fc}gbar \u{2013} sp\u{e4}ter [{}]", l)); }
                            if r.chance(4, 5) { m.insert("disconnect_timeout".to_string(), format!("Zeit [{}]", l)); }
                            ads.loc_table.insert(l.to_string(), m);
                        }
                    }
                    ads.loc_default = r.pick(&["en_us", "en_US", "de", ""]).to_string();
                    ads.loc_fail = r.chance(1, 20);
                    let secret = if r.chance(1, 2) { Some(r.bytes(16)) } else { None };
                    let client = rnd_sa(&mut r);
                    let sc = build("C03", &mut r, &p, ads, secret, client, format!("routing {}", i));
                    run(sc, &mut r);
                }
            }
            "C06" => {
                // what the server sends is not subject to the limit it applies to what it receives: status exchanges whose
                // response is longer than the configured maximum frame length (a small maximum; a favicon of 12-20 kB)
                for i in 0..(4 * scale) {
                    let p = base_params(&mut r, Intent::Status);
                    let mut ads = base_ads(&mut r);
                    let mut st = ServerStatus::default();
                    if i % 2 == 1 { st.favicon = Some(format!("data:image/png;base64,{}", "iVBORw0KGgo".repeat(1100 + r.below(700) as usize))); }
                    ads.status.0 = Ok(Some(st));
                    let cl = rnd_sa(&mut r);
                    let mut sc = build("C06", &mut r, &p, ads, None, cl, format!("status response longer than the inbound limit #{}", i));
                    if i % 2 == 0 { sc.max_len = *r.pick(&[64, 100]); }
                    run(sc, &mut r);
                }
                // single-frame deviations of the happy paths
                let ids: Vec<i32> = (0..=0x20).chain([-1, 0x7f, 0x80].into_iter()).collect();
                for intent in [Intent::Status, Intent::Login, Intent::Transfer] {
                    let probe_secret = Some(vec![9u8; 16]);
                    let p0 = base_params(&mut r, intent);
                    let probe = build2("C06", &mut r, &p0, probe_secret.clone(), "probe".into());
                    let frame_pos: Vec<usize> = probe.acts.iter().enumerate().filter(|(_, a)| matches!(a, Act::Frame { .. } | Act::EncResponse { .. })).map(|(i, _)| i).collect();
                    for (k, pos) in frame_pos.iter().enumerate() {
                        for id in ids.iter() {
                            if scale < 3 && r.below(3) != 0 { continue; }
                            let mut p = base_params(&mut r, intent);
                            if intent == Intent::Transfer { p.auth_payload = None; }
                            let mut sc = build2("C06", &mut r, &p, probe_secret.clone(), format!("{:?} step {} id {}", intent, k, id));
                            let body = match (*id, r.below(3)) {
                                (0, 0) => handshake_body(769, "h", 1, 2),
                                (0, 1) => login_start_body("Dev", &Uuid::from_u128(5)),
                                (1, _) => 77u64.to_be_bytes().to_vec(),
                                (4, 0) => cookie_resp_body("passage:session", &None),
                                (4, _) => 99u64.to_be_bytes().to_vec(),
                                (_, 2) => r.bytes(6),
                                _ => vec![],
                            };
                            sc.acts[*pos] = Act::Frame { id: *id, body };
                            run(sc, &mut r);
                        }
                        // the expected frame left out
                        {
                            let p = base_params(&mut r, intent);
                            let mut sc = build2("C06", &mut r, &p, probe_secret.clone(), format!("{:?} step {} omitted", intent, k));
                            if let Act::Frame { .. } = sc.acts[*pos].clone() { sc.acts.remove(*pos); run(sc, &mut r); }
                        }
                        // the expected frame sent twice
                        let p = base_params(&mut r, intent);
                        let mut sc = build2("C06", &mut r, &p, probe_secret.clone(), format!("{:?} step {} repeated", intent, k));
                        if let Act::Frame { .. } = sc.acts[*pos].clone() { let a = sc.acts[*pos].clone(); sc.acts.insert(*pos, a); run(sc, &mut r); }
                    }
                }
                // every next-state ordinal around the defined range
                for ns in -1..=5 {
                    let p = base_params(&mut r, Intent::Login);
                    let mut sc = build2("C06", &mut r, &p, None, format!("next-state {}", ns));
                    for a in sc.acts.iter_mut() { if let Act::Frame { id: 0, body } = a { *body = handshake_body(p.proto, &p.host, p.port, ns); break; } }
                    run(sc, &mut r);
                }
            }
            "C10" => {
                // two-connection histories: authenticate + get transferred, then come back with what was stored
                for i in 0..(12 * scale) {
                    let expiry: u64 = 21_600;
                    let secret = match i % 6 { 0 => None, 1 => Some(r.bytes(1)), 2 => Some(r.bytes(64)), 3 => Some(r.bytes(200)), 5 => Some(vec![]), _ => Some(r.bytes(16)) };   // Some(vec![]): an empty secret file is still a secret
                    let client = if i % 6 == 5 { SocketAddr::new("::ffff:203.0.113.7".parse().unwrap(), 51_000) } else { rnd_sa(&mut r) };
                    let mut p1 = base_params(&mut r, Intent::Login);
                    p1.session_payload = match i % 3 { 0 => None, 1 => Some(b"null".to_vec()),
                        _ => Some(serde_json::to_vec(&SessionCookie { id: Uuid::from_u128(77), server_address: "old.example".into(), server_port: 1, trace_id: None }).unwrap()) };
                    let mut ads = base_ads(&mut r);
                    if let Ok(d) = &mut ads.discover.0 { if d.is_empty() { d.push(rnd_target(&mut r, 0)); } }
                    if i % 7 == 6 { ads.select.0 = SelectMode::NoneSel; }
                    let sc1 = build("C10", &mut r, &p1, ads.clone(), secret.clone(), client, format!("history {} first", i));
                    let rec1 = run_scenario(&sc1, &mut r);
                    print_case(&sc1, &rec1, &pubkey);
                    // what the client stored
                    let stored = stored_cookie(&rec1, b"passage:authentication");
                    let ident1 = login_success_identity(&rec1);
                    let delta: i64 = *r.pick(&[0i64, 5, expiry as i64 - 1, expiry as i64, expiry as i64 + 1, 3 * expiry as i64]);
                    let same_ip = i % 5 != 4;
                    let client2 = if same_ip { SocketAddr::new(client.ip(), 40_000 + (i as u16)) } else { SocketAddr::new("198.51.100.9".parse().unwrap(), client.port()) };
                    let mut p2 = base_params(&mut r, Intent::Transfer);
                    p2.auth_payload = stored.clone();
                    p2.session_payload = stored_cookie(&rec1, b"passage:session");
                    let mut sc2 = build("C10", &mut r, &p2, ads.clone(), secret.clone(), client2, format!("history {} second delta {} same_ip {}", i, delta, same_ip));
                    sc2.clock = (FIXED_NOW as i64 + delta) as u64;
                    let rec2 = run_scenario(&sc2, &mut r);
                    print_case(&sc2, &rec2, &pubkey);
                    let ident2 = login_success_identity(&rec2);
                    let flag2 = enc_request_flag(&rec2);
                    let auth_called2 = rec2.calls.iter().any(|c| c.1.starts_with("(CAuth"));
                    let g_ident = |x: &Option<(u128, Vec<u8>)>| match x { Some((u, n)) => format!("(Some ({}, {}))", u, g_hex(n)), None => "None".into() };
                    emit_case("C10P", &format!("{{| pp_stored := {}; pp_secret := {}; pp_within := {}; pp_same_ip := {}; pp_ident1 := {}; pp_ident2 := {}; pp_flag2 := {}; pp_auth_called2 := {}; pp_issued1 := {} |}}",
                        g_opt(stored.as_ref().map(|s| g_hex(s))), g_bool(secret.is_some()), g_bool(delta <= expiry as i64), g_bool(same_ip), g_ident(&ident1), g_ident(&ident2),
                        match flag2 { Some(b) => format!("(Some {})", g_bool(b)), None => "None".into() }, g_bool(auth_called2),
                        g_bool(rec1.outcome == "OOk")));
                }
            }
            "MAL" => {
                // C04: well-formed transcripts with one frame mutated, at every protocol state
                let hostile: Vec<Vec<u8>> = vec![vec![0xff, 0xff, 0xff, 0xff, 0x0f], vec![0x80, 0x80, 0x80, 0x80, 0x08], vec![0xff, 0xff, 0xff, 0xff, 0x07],
                    vec![0x00], vec![0xff, 0xff, 0xff, 0xff, 0xff], vec![0x80, 0x80, 0x80, 0x80, 0x80, 0x01], vec![0x91, 0x4e], vec![0x90, 0x4e]];
                for intent in [Intent::Status, Intent::Login, Intent::Transfer] {
                    let p0 = base_params(&mut r, intent);
                    let probe = build2("MAL", &mut r, &p0, Some(vec![3u8; 16]), "probe".into());
                    let frame_pos: Vec<usize> = probe.acts.iter().enumerate().filter(|(_, a)| matches!(a, Act::Frame { .. })).map(|(i, _)| i).collect();
                    for (k, pos) in frame_pos.iter().enumerate() {
                        for m in 0..15 {
                            if scale < 3 && m != 14 && r.below(2) == 0 { continue; }
                            let mut p = base_params(&mut r, intent);
                            if intent == Intent::Transfer { let c = rnd_sa(&mut r); p.auth_payload = Some(valid_auth_cookie(&mut r, &c, &[3u8; 16], 5, 21_600, false)); }
                            let mut sc = build2("MAL", &mut r, &p, Some(vec![3u8; 16]), format!("{:?} step {} mutation {}", intent, k, m));
                            let Act::Frame { id, body } = sc.acts[*pos].clone() else { continue };
                            let good = frame_bytes(id, &body);
                            let inner_len = good.len() - 1;   // all these frames are < 128 bytes except the encryption response
                            let mut repl: Vec<Act> = vec![];
                            match m {
                                0..=7 => { // hostile outer length, then (after a pause) the body: the refusal must not wait for it
                                    let mut v = hostile[m].clone(); repl.push(Act::Raw(v.clone())); repl.push(Act::Sleep(5_001)); v = good[1.min(good.len())..].to_vec(); if !v.is_empty() { repl.push(Act::Raw(v)); } }
                                8 => { // declared length one too small / the rest glued to the next frame
                                    let mut v = vec![]; put_varint(&mut v, inner_len as i32 - 1); v.extend_from_slice(&good[good.len() - inner_len..]); repl.push(Act::Raw(v)); }
                                9 => { let mut v = vec![]; put_varint(&mut v, inner_len as i32 + 1); v.extend_from_slice(&good[good.len() - inner_len..]); repl.push(Act::Raw(v)); }
                                10 => { // truncated frame then end of stream
                                    let cut = r.below(good.len() as u64) as usize; repl.push(Act::Raw(good[..cut].to_vec())); repl.push(Act::Sleep(7)); repl.push(Act::Eof); }
                                11 => { // hostile inner length prefix (first field)
                                    let mut b2 = r.pick(&hostile).clone(); b2.extend_from_slice(&body); repl.push(Act::Frame { id, body: b2 }); }
                                12 => { // invalid UTF-8 / bad ordinal / random body
                                    let mut b2 = body.clone(); if !b2.is_empty() { let i = r.below(b2.len() as u64) as usize; b2[i] = *r.pick(&[0xc0u8, 0xff, 0x80, 0xed, 0x7f]); } else { b2 = r.bytes(5); } repl.push(Act::Frame { id, body: b2 }); }
                                13 => { let n = r.below(40) as usize; repl.push(Act::Raw(r.bytes(n))); }
                                _ => { // the stream ends inside a length prefix: 1-4 bytes that all announce another one
                                    let n = 1 + r.below(4) as usize; let v: Vec<u8> = (0..n).map(|_| *r.pick(&[0x80u8, 0x90, 0xff, 0x8a])).collect();
                                    repl.push(Act::Raw(v)); repl.push(Act::Sleep(7)); repl.push(Act::Eof); }
                            }
                            sc.acts.splice(*pos..*pos + 1, repl);
                            if m == 4 || m == 13 { sc.max_len = *r.pick(&[64, 300, 10_000]); }
                            run(sc, &mut r);
                        }
                    }
                }
                // RSA blobs of odd sizes in the encryption response
                for n in [0usize, 127, 128, 129, 4096] {
                    let mut p = base_params(&mut r, Intent::Login);
                    p.enc = (TokenMode::Echo, SecretMode::Good16, KeyMode::Garbage(n));
                    let sc = build2("MAL", &mut r, &p, None, format!("rsa blob {}", n));
                    run(sc, &mut r);
                }
                // a frame just at / over the configured maximum, and mutations after encryption started
                for (maxl, over) in [(64i32, 0usize), (64, 1), (300, 0), (300, 1)] {
                    let p = base_params(&mut r, Intent::Login);
                    let mut sc = build2("MAL", &mut r, &p, None, format!("max {} over {}", maxl, over));
                    sc.max_len = maxl;
                    // plugin message (id 2) of exactly max / max+1 bytes in the configuration phase instead of client information
                    if let Some(pos) = sc.acts.iter().rposition(|a| matches!(a, Act::Frame { id: 0, .. })) {
                        sc.acts[pos] = Act::Frame { id: 2, body: vec![0u8; maxl as usize - 1 + over] };
                    }
                    run(sc, &mut r);
                }
                for m in 0..6 {
                    let p = base_params(&mut r, Intent::Login);
                    let mut sc = build2("MAL", &mut r, &p, None, format!("post-encryption mutation {}", m));
                    if let Some(pos) = sc.acts.iter().rposition(|a| matches!(a, Act::Frame { id: 0, .. })) {
                        sc.acts[pos] = match m { 0 => Act::Raw(vec![0xff, 0xff, 0xff, 0xff, 0x0f]), 1 => Act::Raw(vec![0x00]), 2 => Act::Frame { id: 6, body: vec![0u8; 16].into_iter().chain([9u8]).collect() },
                            3 => Act::Frame { id: 0, body: vec![0xff, 0xff, 0xff, 0xff, 0x07, b'a'] }, 4 => Act::Frame { id: 0, body: vec![2, 0xc0, 0x80] }, _ => Act::Raw(r.bytes(30)) };
                    }
                    run(sc, &mut r);
                }
            }
            "SEG" => {
                // C08: the same scenario unsegmented and with every frame cut into pieces
                for i in 0..(14 * scale) {
                    let intent = *r.pick(&[Intent::Status, Intent::Login, Intent::Transfer]);
                    let mut p = base_params(&mut r, intent);
                    // every second session carries one frame that is larger than everything after it (a valid session cookie
                    // with a host name of 300-900 bytes): a receive buffer that keeps its capacity is then larger than the next frames
                    if i % 2 == 0 {
                        let n = 300 + r.below(600) as usize;
                        p.session_payload = Some(serde_json::to_vec(&SessionCookie { id: Uuid::from_u128(r.next() as u128), server_address: "h".repeat(n), server_port: 25565, trace_id: None }).unwrap());
                    }
                    let mut ads = base_ads(&mut r);
                    if let Ok(d) = &mut ads.discover.0 { if d.is_empty() { d.push(rnd_target(&mut r, 0)); } }
                    let secret = Some(r.bytes(16));
                    let client = rnd_sa(&mut r);
                    let seed_a = r.next();
                    let base = build("SEG", &mut Rng(seed_a), &p, ads.clone(), secret.clone(), client, format!("seg {} whole", i));
                    let rec0 = run_scenario(&base, &mut Rng(seed_a ^ 1));
                    print_case(&base, &rec0, &pubkey);
                    let mode = i % 5;
                    let mut sc = build("SEG", &mut Rng(seed_a), &p, ads.clone(), secret.clone(), client, format!("seg {} mode {}", i, mode));
                    let mut acts = vec![];
                    for a in sc.acts.iter() {
                        match a {
                            Act::Frame { id, body } => {
                                let f = frame_bytes(*id, body);
                                let cuts: Vec<usize> = match mode {
                                    0 => (1..f.len()).collect(),                                   // one byte at a time
                                    1 => vec![1],                                                    // after the length prefix
                                    2 => vec![f.len() - 1],                                          // last byte late
                                    3 => { let c = 1 + r.below((f.len() - 1).max(1) as u64) as usize; vec![c.min(f.len() - 1).max(1)] }
                                    _ => { let mut v: Vec<usize> = (0..3).map(|_| 1 + r.below((f.len() - 1).max(1) as u64) as usize).filter(|c| *c < f.len()).collect(); v.sort(); v.dedup(); v }
                                };
                                let mut prev = 0;
                                for c in cuts.iter().filter(|c| **c > 0 && **c < f.len()) { acts.push(Act::Raw(f[prev..*c].to_vec())); acts.push(Act::Sleep(3)); prev = *c; }
                                acts.push(Act::Raw(f[prev..].to_vec()));
                            }
                            other => acts.push(other.clone()),
                        }
                    }
                    sc.acts = acts;
                    if i % 3 == 1 { sc.write_script = (0..40).map(|k| if k % 3 == 0 { WriteResp::Accept(1) } else { WriteResp::Accept(7) }).collect(); }
                    if i % 3 == 2 { sc.write_script = (0..60).map(|k| match k % 4 { 0 => WriteResp::Pending, 1 => WriteResp::Accept(3), 2 => WriteResp::Pending, _ => WriteResp::Accept(usize::MAX) }).collect(); }
                    let rec1 = run_scenario(&sc, &mut Rng(seed_a ^ 1));
                    print_case(&sc, &rec1, &pubkey);
                    if intent != Intent::Status && i % 2 == 0 {
                        // the same scenario with the client's first encrypted frames glued to its Encryption Response
                        let mut g = build("SEG", &mut Rng(seed_a), &p, ads.clone(), secret.clone(), client, format!("seg {} glued to the encryption response", i));
                        g.glue = true;
                        let recg = run_scenario(&g, &mut Rng(seed_a ^ 1));
                        print_case(&g, &recg, &pubkey);
                    }
                    let ids = |rec: &RunRecord| g_list(&rec.sent.iter().map(|x| format!("{}", g_z(x.1))).collect::<Vec<_>>());
                    let kinds = |rec: &RunRecord| g_list(&rec.calls.iter().map(|c| format!("{}", match &c.1[..6] { "(CStat" => 1, "(CAuth" => 2, "CDisco" => 3, "(CFilt" => 4, "(CSele" => 5, _ => 6 })).collect::<Vec<_>>());
                    emit_case("SEGP", &format!("{{| sp_ids0 := {}; sp_ids1 := {}; sp_calls0 := {}; sp_calls1 := {}; sp_out0 := {}; sp_out1 := {}; sp_garbled := {} |}}",
                        ids(&rec0), ids(&rec1), kinds(&rec0), kinds(&rec1), rec0.outcome, rec1.outcome, g_bool(rec1.out_garbled || rec0.out_garbled)));
                }
            }
            "CAN" => {
                // M2: ticks and raced completions placed inside frames (cancellation / deferral), end of stream inside frames
                const PMS: u64 = 16_000;
                for i in 0..(36 * scale) {
                    let variant = i % 9;
                    let mut p = base_params(&mut r, Intent::Login);
                    p.ka = KaPolicy::Prompt(51 + 2 * r.below(100));
                    let mut ads = base_ads(&mut r);
                    if let Ok(d) = &mut ads.discover.0 { if d.is_empty() { d.push(rnd_target(&mut r, 0)); } }
                    ads.discover.1 = 201 + 2 * r.below(30); ads.filter.1 = 101 + 2 * r.below(30); ads.select.1 = 51 + 2 * r.below(30);
                    let secret = None;
                    let client = rnd_sa(&mut r);
                    let mut sc = build("CAN", &mut r, &p, ads.clone(), secret, client, format!("cancel variant {} #{}", variant, i));
                    let mut pm_body = Vec::new();
                    put_string(&mut pm_body, b"minecraft:brand");
                    let pml = 130 + r.below(60) as usize; pm_body.extend(r.bytes(pml));
                    let pm = frame_bytes(2, &pm_body);                       // 2-byte length prefix
                    let small = frame_bytes(2, &{ let mut b = Vec::new(); put_string(&mut b, b"a:b"); b.extend(r.bytes(9)); b });
                    let k_tick = 1 + r.below(3);                             // which tick
                    let at = k_tick * PMS;
                    let off_before = 1 + 2 * r.below(3);
                    let off_after = 3 + 2 * r.below(30);
                    let ack = sc.acts.iter().position(|a| matches!(a, Act::Frame { id: 3, .. })).unwrap();
                    let cookie = sc.acts.iter().position(|a| matches!(a, Act::Frame { id: 4, .. })).unwrap();
                    let split = |f: &Vec<u8>, k: usize, t1: u64, t2: u64| vec![Act::SleepUntil(t1), Act::Raw(f[..k].to_vec()), Act::SleepUntil(t2), Act::Raw(f[k..].to_vec())];
                    match variant {
                        0 => {
                            // tick inside the 2-byte length prefix while waiting for the cookie response (keep-alive off)
                            let body = cookie_resp_body("passage:session", &Some(r.bytes(150)));
                            let f = frame_bytes(4, &body);
                            sc.acts.splice(cookie..cookie + 1, split(&f, 1, at - off_before, at + off_after));
                        }
                        1 => {
                            // tick inside the frame body while waiting for the cookie response: deferred, then skipped
                            let body = cookie_resp_body("passage:session", &Some(r.bytes(150)));
                            let f = frame_bytes(4, &body);
                            let k = 2 + r.below(f.len() as u64 - 3) as usize;
                            sc.acts.splice(cookie..cookie + 1, split(&f, k, at - off_before, at + off_after));
                        }
                        2 | 3 => {
                            // configuration phase, waiting for the client information: tick inside prefix (2) / body (3)
                            let k = if variant == 2 { 1 } else { 2 + r.below(pm.len() as u64 - 3) as usize };
                            let mut ins = split(&pm, k, at - off_before, at + off_after);
                            ins.push(Act::Sleep(1 + 2 * r.below(40)));
                            sc.acts.splice(ack + 1..ack + 2, ins);
                        }
                        4 | 5 | 6 => {
                            // raced adapter call completes inside a frame: prefix (4), body (5), small frame's body (6)
                            let t0 = 1001u64;
                            let h = match r.below(3) { 0 => t0 + ads.discover.1, 1 => t0 + ads.discover.1 + ads.filter.1, _ => t0 + ads.discover.1 + ads.filter.1 + ads.select.1 };
                            let (f, k) = match variant { 4 => (pm.clone(), 1), 5 => (pm.clone(), 2 + r.below(pm.len() as u64 - 3) as usize), _ => (small.clone(), 1 + r.below(small.len() as u64 - 1) as usize) };
                            // the client information goes first at t0, then the split frame around the completion
                            let ci = sc.acts.iter().position(|a| matches!(a, Act::Frame { id: 0, body } if body.len() > 5 && sc.acts.iter().position(|x| std::ptr::eq(x, a)).unwrap() > ack)).unwrap();
                            let ci_act = sc.acts[ci].clone();
                            let mut ins = vec![Act::SleepUntil(t0), ci_act];
                            ins.extend(split(&f, k, h - off_before, h + off_after));
                            sc.acts.splice(ack + 1..ci + 1, ins);
                        }
                        7 => {
                            // end of stream inside a frame, in different phases
                            let which = r.below(3);
                            let k = 1 + r.below(pm.len() as u64 - 1) as usize;
                            if which == 0 {
                                let body = cookie_resp_body("passage:session", &Some(r.bytes(150)));
                                let f = frame_bytes(4, &body);
                                let k = 1 + r.below(f.len() as u64 - 1) as usize;
                                sc.acts.splice(cookie.., vec![Act::Raw(f[..k].to_vec()), Act::Sleep(1 + 2 * r.below(20_000)), Act::Eof]);
                            } else if which == 1 {
                                sc.acts.splice(ack + 1.., vec![Act::Sleep(1 + 2 * r.below(50)), Act::Raw(pm[..k].to_vec()), Act::Sleep(1 + 2 * r.below(40_000)), Act::Eof]);
                            } else {
                                let ci = sc.acts.len() - 4;
                                let ci_act = sc.acts[ci].clone();
                                sc.acts.splice(ack + 1.., vec![Act::SleepUntil(1001), ci_act, Act::Sleep(1 + 2 * r.below(100)), Act::Raw(pm[..k].to_vec()), Act::Sleep(1 + 2 * r.below(300)), Act::Eof]);
                            }
                        }
                        _ => {
                            // free form: several frames cut at random points and spread around ticks
                            let mut ins = vec![];
                            let mut t = PMS - 40 + 2 * r.below(10);
                            for _ in 0..(1 + r.below(4)) {
                                let f = if r.chance(1, 2) { pm.clone() } else { small.clone() };
                                let k = 1 + r.below(f.len() as u64 - 1) as usize;
                                let t2 = t + 1 + 2 * r.below(40);
                                ins.extend(split(&f, k, t, t2));
                                t = t2 + 1 + 2 * r.below(9000);
                            }
                            ins.push(Act::Sleep(1 + 2 * r.below(40)));
                            sc.acts.splice(ack + 1..ack + 2, ins);
                        }
                    }
                    run(sc, &mut r);
                }
            }
            "WCAN" => {
                // write-side cancellation (K3): the transport takes only the first 3 bytes of the Keep Alive written at
                // the first tick and refuses the rest for 2 ms; the raced adapter call completes 1 ms after the tick.
                // Every second case is the control: same timing, no refused write.
                const PMS: u64 = 16_000;
                for i in 0..(6 * scale) {
                    let mut p = base_params(&mut r, Intent::Login);
                    p.ka = KaPolicy::Prompt(51 + 2 * r.below(100));
                    let mut ads = base_ads(&mut r);
                    if let Ok(d) = &mut ads.discover.0 { if d.is_empty() { d.push(rnd_target(&mut r, 0)); } }
                    let t0 = 3001u64;   // later than any login takes
                    ads.discover.1 = 201 + 2 * r.below(30); ads.filter.1 = 101 + 2 * r.below(30); ads.select.1 = 51 + 2 * r.below(30);
                    match i % 3 {
                        0 => ads.discover.1 = PMS + 1 - t0,
                        1 => ads.filter.1 = PMS + 1 - t0 - ads.discover.1,
                        _ => ads.select.1 = PMS + 1 - t0 - ads.discover.1 - ads.filter.1,
                    }
                    let torn = (i / 3) % 2 == 0;
                    let cl = rnd_sa(&mut r);
                    let mut sc = build("WCAN", &mut r, &p, ads.clone(), None, cl, format!("write-side cancel race {} torn {} #{}", i % 3, torn, i));
                    let ack = sc.acts.iter().position(|a| matches!(a, Act::Frame { id: 3, .. })).unwrap();
                    let ci = sc.acts.iter().position(|a| matches!(a, Act::Frame { id: 0, body } if body.len() > 5 && sc.acts.iter().position(|x| std::ptr::eq(x, a)).unwrap() > ack)).unwrap();
                    let ci_act = sc.acts[ci].clone();
                    sc.acts.splice(ack + 1..ci + 1, vec![Act::SleepUntil(t0), ci_act]);
                    if torn { sc.tear_at = Some(PMS); }
                    run(sc, &mut r);
                }
                // the same at the SECOND tick with a client that never echoes: the packet torn is the timeout
                // Disconnect, and the raced call completes while it is half written - the verdict must stand
                for i in 0..(3 * scale) {
                    let mut p = base_params(&mut r, Intent::Login);
                    p.ka = KaPolicy::Never;
                    let mut ads = base_ads(&mut r);
                    if let Ok(d) = &mut ads.discover.0 { if d.is_empty() { d.push(rnd_target(&mut r, 0)); } }
                    let t0 = 3001u64;   // later than any login takes
                    ads.discover.1 = 201 + 2 * r.below(30); ads.filter.1 = 101 + 2 * r.below(30); ads.select.1 = 51 + 2 * r.below(30);
                    match i % 3 {
                        0 => ads.discover.1 = 2 * PMS + 1 - t0,
                        1 => ads.filter.1 = 2 * PMS + 1 - t0 - ads.discover.1,
                        _ => ads.select.1 = 2 * PMS + 1 - t0 - ads.discover.1 - ads.filter.1,
                    }
                    let cl = rnd_sa(&mut r);
                    let mut sc = build("WCAN", &mut r, &p, ads.clone(), None, cl, format!("write-side cancel of the timeout disconnect, race {} #{}", i % 3, i));
                    let ack = sc.acts.iter().position(|a| matches!(a, Act::Frame { id: 3, .. })).unwrap();
                    let ci = sc.acts.iter().position(|a| matches!(a, Act::Frame { id: 0, body } if body.len() > 5 && sc.acts.iter().position(|x| std::ptr::eq(x, a)).unwrap() > ack)).unwrap();
                    let ci_act = sc.acts[ci].clone();
                    sc.acts.splice(ack + 1..ci + 1, vec![Act::SleepUntil(t0), ci_act]);
                    sc.tear_at = Some(2 * PMS);
                    run(sc, &mut r);
                }
            }
            "WCAP" => {
                // M3: a transport whose free room follows a schedule, a localization adapter that may suspend.
                // Instants: ticks at multiples of 16000, schedule instants = 0 mod 4, raced completions = 1 mod 4,
                // client echoes = 3 mod 4 after a delivery (no ties for the unbiased select! of `listen`).
                const PMS: u64 = 16_000;
                for i in 0..(48 * scale) {
                    let variant = i % 8; let i = i as u64;
                    let round = i / 8;
                    let mut p = base_params(&mut r, Intent::Login);
                    p.ka = KaPolicy::Prompt(51 + 4 * r.below(50));
                    let mut ads = base_ads(&mut r);
                    if let Ok(d) = &mut ads.discover.0 { if d.is_empty() || variant != 6 { if d.is_empty() { d.push(rnd_target(&mut r, 0)); } } }
                    let t0 = 3001u64;
                    ads.discover.1 = 200 + 4 * r.below(30); ads.filter.1 = 100 + 4 * r.below(30); ads.select.1 = 52 + 4 * r.below(30);
                    // the raced call that is running at instant `at` completes at `at + 1 + 4 m`
                    let span = |ads: &mut AdScript, which: u64, at: u64, m: u64| {
                        let h = at + 1 + 4 * m;
                        match which {
                            0 => ads.discover.1 = h - t0,
                            1 => ads.filter.1 = h - t0 - ads.discover.1,
                            _ => ads.select.1 = h - t0 - ads.discover.1 - ads.filter.1,
                        }
                    };
                    let which = ((i / 8) % 3) as u64;
                    let mut wsched: Vec<(u64, Option<usize>)> = vec![];
                    let mut ci_at = t0;
                    let note;
                    match variant {
                        0 => {   // the Keep Alive of the first tick is accepted for k bytes only; room returns 4 g ms later
                            let (mut k, g, mut m) = (r.below(12) as usize, 1 + r.below(12), r.below(14));
                            // the boundary cases first: nothing / all but one byte accepted, the race ending inside the wait
                            match round % 6 { 0 => { k = 0; m = r.below(g); } 2 => { k = 9; m = r.below(g); } 4 => { k = 0; } _ => {} }
                            span(&mut ads, which, PMS, m);
                            wsched = vec![(PMS - 12, Some(k)), (PMS + 4 * g, None)];
                            note = format!("keep-alive torn at {} of 10, room back after {} ms, race {} ends after {} ms", k, 4 * g, which, 1 + 4 * m);
                        }
                        1 | 5 => {   // silent client: the timeout Disconnect of the second tick is torn; localize may suspend
                            p.ka = KaPolicy::Never;
                            let (mut k, g, mut m) = (r.below(40) as usize, 1 + r.below(12), r.below(14));
                            ads.loc_lat = *r.pick(&[0u64, 0, 8, 24, 60]);
                            // the race ending while localize() is suspended / while nothing of the Disconnect is accepted yet
                            match round % 6 { 0 => { ads.loc_lat = 60; m = r.below(14); } 1 => { k = 0; m = r.below(g); } 3 => { ads.loc_lat = 24; m = r.below(5); k = 0; } _ => {} }
                            span(&mut ads, which, 2 * PMS, m);
                            if variant == 5 { match which { 0 => ads.discover.0 = Err(()), 1 => ads.filter.0 = FilterMode::Fail, _ => ads.select.0 = SelectMode::Fail } }
                            wsched = vec![(2 * PMS - 12, Some(k)), (2 * PMS + ads.loc_lat + 4 * g, None)];
                            note = format!("timeout disconnect torn at {}, localize {} ms, room back {} ms after it, race {} ends after {} ms{}", k, ads.loc_lat, 4 * g, which, 1 + 4 * m,
                                           if variant == 5 { " with an adapter failure" } else { "" });
                        }
                        2 => {   // trickle: a few bytes every 4 ms from just before the first tick, for 60 steps
                            let m = r.below(40);
                            span(&mut ads, which, PMS, m);
                            for j in 0..60u64 { wsched.push((PMS - 12 + 4 * j, Some(*r.pick(&[0usize, 0, 1, 2, 3, 5, 9, 40])))); }
                            wsched.push((PMS - 12 + 240, None));
                            note = format!("trickle, race {} ends after {} ms", which, 1 + 4 * m);
                        }
                        3 => {   // the transport never takes another byte after k: the handler hangs in a write
                            let (k, m) = (r.below(10) as usize, r.below(14));   // inside the Keep Alive: what a frame the client never sees in full contains (a fresh session id) cannot be observed
                            span(&mut ads, which, PMS, m);
                            wsched = vec![(PMS - 12, Some(k))];
                            note = format!("transport stalls for good after {} bytes, race {} ends after {} ms", k, which, 1 + 4 * m);
                        }
                        4 => {   // blocked while waiting for the client information (no race): the write just waits
                            ci_at = PMS + 1 + 4 * (250 + r.below(5000));
                            let (k, g) = (r.below(12) as usize, 1 + r.below(6000));
                            wsched = vec![(PMS - 12, Some(k)), (PMS + 4 * g, None)];
                            note = format!("blocked in the client-information wait: {} bytes, room back after {} ms, information at {}", k, 4 * g, ci_at);
                        }
                        6 => {   // no target: the no-target Disconnect under a trickle, localize suspends
                            ads.discover.0 = Ok(vec![]);
                            ads.loc_lat = *r.pick(&[0u64, 8, 24]);
                            for j in 0..40u64 { wsched.push((t0 - 1 + 4 * j, Some(*r.pick(&[0usize, 1, 2, 7, 30])))); }
                            wsched.push((t0 - 1 + 160, None));
                            note = format!("no target under a trickle, localize {} ms", ads.loc_lat);
                        }
                        _ => {   // random schedule over three periods, random client
                            p.ka = match r.below(4) { 0 => KaPolicy::Never, 1 => KaPolicy::StopAfter(1, 51 + 4 * r.below(20)), _ => KaPolicy::Prompt(51 + 4 * r.below(2000)) };
                            ads.loc_lat = *r.pick(&[0u64, 0, 8, 24]);
                            let at = *r.pick(&[PMS, 2 * PMS, 3 * PMS]);
                            span(&mut ads, which, at, r.below(60));
                            let mut t = PMS - 12;
                            for _ in 0..(5 + r.below(40)) { wsched.push((t, *r.pick(&[Some(0usize), Some(0), Some(1), Some(3), Some(8), Some(13), Some(50), None]))); let big = r.chance(1, 6); t += 4 * (1 + r.below(if big { 4000 } else { 6 })); }
                            wsched.push((t, None));
                            note = format!("random schedule of {} instants", wsched.len());
                        }
                    }
                    let cl = rnd_sa(&mut r);
                    if variant == 7 && round % 2 == 1 {
                        // the whole session under a trickle from the first byte on: status, login and transfer intents
                        // (the sends of those phases are not raced: each simply waits for room)
                        let intent = *r.pick(&[Intent::Status, Intent::Login, Intent::Transfer]);
                        let mut p = base_params(&mut r, intent);
                        p.ka = KaPolicy::Prompt(51 + 4 * r.below(50));
                        let secret = if r.chance(1, 2) { Some(r.bytes(16)) } else { None };
                        if let (Intent::Transfer, Some(sec)) = (intent, &secret) { if r.chance(2, 3) { p.auth_payload = Some(valid_auth_cookie(&mut r, &cl, sec, 5, 21_600, false)); } }
                        let mut ads = base_ads(&mut r);
                        ads.discover.1 = 200 + 4 * r.below(30); ads.filter.1 = 100 + 4 * r.below(30); ads.select.1 = 52 + 4 * r.below(30);
                        let mut ws: Vec<(u64, Option<usize>)> = vec![];
                        let mut t = 0u64;
                        for _ in 0..(40 + r.below(400)) { ws.push((t, Some(*r.pick(&[0usize, 1, 2, 3, 7, 19, 64, 300])))); t += 4 * (1 + r.below(3)); }
                        ws.push((t, None));
                        let mut sc = build("WCAP", &mut r, &p, ads, secret, cl, format!("{:?} under a trickle from the first byte ({} instants) #{}", intent, ws.len(), i));
                        sc.wsched = ws;
                        run(sc, &mut r);
                        continue;
                    }
                    let mut sc = build("WCAP", &mut r, &p, ads.clone(), None, cl, format!("{} #{}", note, i));
                    let ack = sc.acts.iter().position(|a| matches!(a, Act::Frame { id: 3, .. })).unwrap();
                    let ci = sc.acts.iter().position(|a| matches!(a, Act::Frame { id: 0, body } if body.len() > 5 && sc.acts.iter().position(|x| std::ptr::eq(x, a)).unwrap() > ack)).unwrap();
                    let ci_act = sc.acts[ci].clone();
                    sc.acts.splice(ack + 1..ci + 1, vec![Act::SleepUntil(ci_at), ci_act]);
                    sc.wsched = wsched;
                    run(sc, &mut r);
                }
            }
            "C07" => {
                for i in 0..(30 * scale) {
                    let intent = *r.pick(&[Intent::Login, Intent::Transfer]);
                    let mut p = base_params(&mut r, intent);
                    p.ci_delay = *r.pick(&[11u64, 501, 15_903, 16_105, 32_207, 48_309]) + 2 * r.below(40);
                    p.ka = match r.below(7) { 0 => KaPolicy::Never, 1 => KaPolicy::WrongId(51), 2 => KaPolicy::Duplicate(71), 3 => KaPolicy::Prompt(15_801 + 2 * r.below(50)),
                        4 => KaPolicy::StopAfter(1 + r.below(3) as usize, 91), 5 => KaPolicy::Prompt(7001 + 2 * r.below(500)), _ => KaPolicy::Prompt(31 + 2 * r.below(500)) };
                    let mut ads = base_ads(&mut r);
                    ads.auth.1 = if r.chance(1, 3) { *r.pick(&[17_003u64, 40_001, 5]) } else { short_lat(&mut r) };
                    ads.discover.1 = lat(&mut r); ads.filter.1 = lat(&mut r); ads.select.1 = lat(&mut r);
                    if let Ok(d) = &mut ads.discover.0 { if d.is_empty() && r.chance(2, 3) { d.push(rnd_target(&mut r, 0)); } }
                    let sec = if r.chance(1, 2) { Some(r.bytes(16)) } else { None };
                    let cl = rnd_sa(&mut r);
                    let sc = build("C07", &mut r, &p, ads, sec, cl, format!("timing {}", i));
                    run(sc, &mut r);
                }
            }
            _ => {}
        }
    }
    let mut h: Vec<_> = hist.into_iter().collect();
    h.sort();
    for (k, v) in h { emit_note("outcomes", &format!("{}={}", k, v)); }
    let _ = WriteResp::Pending;
}
