//! Direct correspondence for passage_protocol::cookie::{sign, verify} (C02 / C10): every case is
//! one call of the real functions; the Gallina side recomputes HMAC-SHA256 from the specification.
//!
//! Families JS / JP tie the Gallina model of serde_json on the two cookie records
//! (Crypto/CookieJson.v) to the real serde_json: JS = seeded records written by `to_vec`,
//! JP = byte strings (valid serialisations and one mutation each) read by `from_slice`.
use passage_adapters::authentication::ProfileProperty;
use passage_protocol::cookie::{sign, verify, AuthCookie, SessionCookie};
use std::collections::HashMap;
use std::net::{IpAddr, Ipv4Addr, Ipv6Addr, SocketAddr};
use uuid::Uuid;
use vh::connrun::{g_auth_cookie, g_session_cookie};
use vh::*;

// ---------------------------------------------------------------- JS / JP generators
const SPECIALS: &[&str] = &["\"", "\\", "\n", "\r", "\t", "\u{8}", "\u{c}", "\u{0}", "\u{1}", "\u{b}", "\u{1f}", "\u{7f}",
    "/", "\u{e4}", "\u{20ac}", "\u{1F600}", " ", "'", "\u{2028}", "\u{80}", "\u{ffff}"];

fn nasty(r: &mut Rng, max: usize) -> String {
    match r.below(6) {
        0 => String::new(),
        1 => format!("Player{}", r.below(1000)),
        2 => r.utf8(max),
        _ => {
            let mut s = String::new();
            for _ in 0..(1 + r.below(max as u64)) {
                if r.chance(1, 2) { s.push_str(*r.pick(SPECIALS)); } else { s.push(char::from_u32(0x21 + r.below(0x5e) as u32).unwrap()); }
            }
            s
        }
    }
}
fn rnd_u128(r: &mut Rng) -> u128 {
    match r.below(6) { 0 => 0, 1 => u128::MAX, 2 => 1, 3 => r.next() as u128, _ => ((r.next() as u128) << 64) | r.next() as u128 }
}
fn rnd_ip(r: &mut Rng) -> IpAddr {
    if r.chance(1, 2) {
        let o: Vec<u8> = (0..4).map(|_| *r.pick(&[0u8, 1, 9, 10, 99, 100, 127, 192, 255])).collect();
        IpAddr::V4(Ipv4Addr::new(o[0], o[1], o[2], o[3]))
    } else {
        let mut g = [0u16; 8];
        match r.below(6) {
            0 => {}                                               // ::
            1 => { g[7] = 1; }                                    // ::1
            2 => { g[5] = 0xffff; g[6] = r.next() as u16; g[7] = r.next() as u16; }   // IPv4-mapped
            3 => { g[6] = r.next() as u16; g[7] = r.next() as u16; }                  // IPv4-compatible
            _ => { for x in g.iter_mut() { *x = if r.chance(1, 2) { 0 } else { *r.pick(&[1u16, 0xa, 0xdb8, 0x2001, 0xffff, 0xfe80]) }; } }
        }
        IpAddr::V6(Ipv6Addr::new(g[0], g[1], g[2], g[3], g[4], g[5], g[6], g[7]))
    }
}
fn rnd_port(r: &mut Rng) -> u16 { *r.pick(&[0u16, 1, 9, 10, 80, 25565, 65535, 32768, 1000]) }
fn rnd_prop(r: &mut Rng) -> ProfileProperty {
    ProfileProperty { name: if r.chance(1, 2) { "textures".into() } else { nasty(r, 6) }, value: nasty(r, 12),
                      signature: if r.chance(1, 2) { Some(nasty(r, 8)) } else { None } }
}
fn rnd_auth(r: &mut Rng) -> AuthCookie {
    let mut extra = HashMap::new();
    // at most one entry: a HashMap with two or more iterates in a per-process random order
    if r.chance(1, 3) { extra.insert(nasty(r, 5), nasty(r, 5)); }
    AuthCookie {
        timestamp: *r.pick(&[0u64, 1, 9, 10, u64::MAX, u64::MAX - 1, 1_700_000_000, 10_000_000_000_000_000_000, 9_999_999_999_999_999_999, 1 << 63]),
        client_addr: SocketAddr::new(rnd_ip(r), rnd_port(r)),
        user_name: nasty(r, 10),
        user_id: Uuid::from_u128(rnd_u128(r)),
        target: if r.chance(1, 3) { None } else { Some(nasty(r, 8)) },
        profile_properties: (0..r.below(4)).map(|_| rnd_prop(r)).collect(),
        extra,
    }
}
fn rnd_session(r: &mut Rng) -> SessionCookie {
    SessionCookie { id: Uuid::from_u128(rnd_u128(r)), server_address: nasty(r, 12), server_port: rnd_port(r),
                    trace_id: match r.below(4) { 0 => None, 1 => Some(format!("{:032x}", rnd_u128(r))), _ => Some("0".repeat(32)) } }
}

fn jres_auth(p: &[u8]) -> String {
    match serde_json::from_slice::<AuthCookie>(p) { Ok(c) => format!("(JOk {})", g_auth_cookie(&c)), Err(_) => "JErr".into() }
}
fn jres_session(p: &[u8]) -> String {
    match serde_json::from_slice::<Option<SessionCookie>>(p) {
        Ok(None) => "(JOk None)".into(),
        Ok(Some(c)) => format!("(JOk (Some {}))", g_session_cookie(&c)),
        Err(_) => "JErr".into(),
    }
}

/// a JSON object as a list of (key text without quotes, value text); `compose` writes it
/// compactly or with whitespace at every token boundary
#[derive(Clone)]
struct Doc(Vec<(Vec<u8>, Vec<u8>)>);
fn ws(r: &mut Rng, on: bool) -> Vec<u8> {
    if !on { return vec![]; }
    (0..r.below(3)).map(|_| *r.pick(&[b' ', b'\n', b'\t', b'\r'])).collect()
}
fn compose(d: &Doc, r: &mut Rng, spaced: bool) -> Vec<u8> {
    let mut o = ws(r, spaced);
    o.push(b'{');
    for (i, (k, v)) in d.0.iter().enumerate() {
        if i > 0 { o.extend(ws(r, spaced)); o.push(b','); }
        o.extend(ws(r, spaced)); o.push(b'"'); o.extend_from_slice(k); o.push(b'"');
        o.extend(ws(r, spaced)); o.push(b':'); o.extend(ws(r, spaced)); o.extend_from_slice(v);
    }
    o.extend(ws(r, spaced)); o.push(b'}'); o.extend(ws(r, spaced));
    o
}
fn js<T: serde::Serialize>(v: &T) -> Vec<u8> { serde_json::to_vec(v).unwrap() }
fn auth_doc(c: &AuthCookie) -> Doc {
    Doc(vec![(b"timestamp".to_vec(), js(&c.timestamp)), (b"client_addr".to_vec(), js(&c.client_addr)),
             (b"user_name".to_vec(), js(&c.user_name)), (b"user_id".to_vec(), js(&c.user_id)),
             (b"target".to_vec(), js(&c.target)), (b"profile_properties".to_vec(), js(&c.profile_properties)),
             (b"extra".to_vec(), js(&c.extra))])
}
fn session_doc(c: &SessionCookie) -> Doc {
    Doc(vec![(b"id".to_vec(), js(&c.id)), (b"server_address".to_vec(), js(&c.server_address)),
             (b"server_port".to_vec(), js(&c.server_port)), (b"trace_id".to_vec(), js(&c.trace_id))])
}
fn qs(s: &str) -> Vec<u8> { format!("\"{}\"", s).into_bytes() }

/// rewrite the content of a serialised JSON string with other spellings of the same characters
fn respell(r: &mut Rng, s: &str) -> Vec<u8> {
    let mut o = vec![b'"'];
    for ch in s.chars() {
        let cp = ch as u32;
        match r.below(4) {
            0 if cp < 0x10000 => o.extend(if r.chance(1, 2) { format!("\\u{:04x}", cp) } else { format!("\\u{:04X}", cp) }.bytes()),
            0 => { let v = cp - 0x10000; o.extend(format!("\\u{:04x}\\u{:04X}", 0xd800 + (v >> 10), 0xdc00 + (v & 0x3ff)).bytes()); }
            1 if ch == '/' => o.extend(b"\\/"),
            _ => o.extend(serde_json::to_string(&ch.to_string()).unwrap().trim_matches('"').bytes()),
        }
    }
    o.push(b'"');
    o
}

const BAD_STRINGS: &[&[u8]] = &[b"\"\\x\"", b"\"\\u12\"", b"\"\\u12g4\"", b"\"\\ud800\"", b"\"\\udc00\"", b"\"\\ud800\\u0041\"", b"\"\\ud800x\"",
    b"\"\\ud800\\n\"", b"\"\\udbff\\udfff\"", b"\"\\ud83d\\ude00\"", b"\"\\uD7FF\\uE000\"", b"\"a\nb\"", b"\"a\x00b\"", b"\"a\x1fb\"", b"\"a\x7fb\"",
    b"\"\xff\"", b"\"\xc0\x80\"", b"\"\xe2\x82\"", b"\"\xed\xa0\x80\"", b"\"\xf4\x90\x80\x80\"", b"\"\xc3\\u00a4\"", b"\"\xc3\xa4\"",
    b"\"abc", b"\"abc\\", b"\"abc\\\"", b"'abc'", b"abc", b"\"\\u0000\"", b"\"\\b\\f\\n\\r\\t\\\"\\\\\\/\"", b"\"\\a\"", b"\"\\U0041\""];
const WRONG: &[&[u8]] = &[b"null", b"true", b"false", b"0", b"1", b"-1", b"1.5", b"\"x\"", b"\"\"", b"[]", b"{}", b"[1]", b"{\"a\":\"b\"}", b"", b"nul", b"nulll", b"NULL", b"Null"];
const NUMS: &[&[u8]] = &[b"0", b"00", b"01", b"-0", b"-1", b"1.0", b"1e3", b"1E3", b"0e0", b"0.0", b"18446744073709551615", b"18446744073709551616",
    b"18446744073709551620", b"99999999999999999999999", b"+1", b"0x10", b"1_000", b".5", b"1.", b"65535", b"65536", b"9", b"10", b"1e", b"-", b"1-", b"1a", b"\"1\"", b"\xd9\xa1"];
const UUIDS: &[&str] = &["67E55044-10B1-426F-9247-BB680E5FE0C8", "67e5504410b1426f9247bb680e5fe0c8", "{67e55044-10b1-426f-9247-bb680e5fe0c8}",
    "urn:uuid:67e55044-10b1-426f-9247-bb680e5fe0c8", "67e55044-10b1-426f-9247-bb680e5fe0c", "67e55044-10b1-426f-9247-bb680e5fe0c88", "67e55044-10b1-426f-9247-bb680e5fe0cg",
    "67e5504-410b1-426f-9247-bb680e5fe0c8", "67e55044-10b1-426f-9247bb680e5fe0c8-", "", "67e55044_10b1_426f_9247_bb680e5fe0c8", "67e5504410b1426f9247bb680e5fe0cg",
    "{67e55044-10b1-426f-9247-bb680e5fe0c8", "[67e55044-10b1-426f-9247-bb680e5fe0c8]", "URN:UUID:67e55044-10b1-426f-9247-bb680e5fe0c8", "urn:uuid:67e5504410b1426f9247bb680e5fe0c8xxxx",
    "67e55044-10b1-426f-9247-bb680e5fe0\u{e9}", "{67e5504410b1426f9247bb680e5fe0c8}xxxx", "--------------------------------", "+7e55044-10b1-426f-9247-bb680e5fe0c8", " 67e55044-10b1-426f-9247-bb680e5fe0c"];
const ADDRS: &[&str] = &["1.2.3.4", "[::1]:80", "::1:80", "1.2.3.4:65536", "01.2.3.4:5", "[fe80::1%7]:80", "[fe80::1%0]:80", "1.2.3.4:080", "[0:0:0:0:0:0:0:1]:80",
    "[2001:DB8::1]:1", "[::ffff:1.2.3.4]:9", "[::1.2.3.4]:9", "[::ffff:102:304]:9", "1.2.3.4:", "1.2.3.4:+5", "[1.2.3.4]:5", "[::1]", "256.1.1.1:1", "1.2.3:1", "",
    "localhost:80", " 1.2.3.4:5", "1.2.3.4:5 ", "[1:2:3:4:5:6:7:8]:0", "[1:0:0:2:0:0:0:3]:1", "[1::2:0:0:3]:70000", "[::]:0", "[1:2:3:4:5:6:7::]:1", "[::%4294967295]:1", "[::%4294967296]:1",
    "1.2.3.4:00000000000000000005", "[1:2:3:4:5:6:1.2.3.4]:5", "1.2.3.4\\u003a5", "1.2.3.4:5\\u0000"];

fn put(d: &Doc, key: &str, val: &[u8]) -> Doc {
    Doc(d.0.iter().map(|(k, v)| if k == key.as_bytes() { (k.clone(), val.to_vec()) } else { (k.clone(), v.clone()) }).collect())
}
fn get<'a>(d: &'a Doc, key: &str) -> &'a [u8] { &d.0.iter().find(|(k, _)| k == key.as_bytes()).unwrap().1 }

/// every mutation yields (label, bytes); `outside` marks the ones the Gallina parser is known not to decide
fn mutations(r: &mut Rng, d: &Doc, strings: &[(&str, String)], numkey: &str, idkey: &str, session: bool) -> Vec<(&'static str, bool, Vec<u8>)> {
    let mut out: Vec<(&'static str, bool, Vec<u8>)> = vec![];
    let base = compose(d, r, false);
    out.push(("valid", false, base.clone()));
    out.push(("spaced", false, compose(d, r, true)));
    // truncations
    for _ in 0..3 { let n = r.below(base.len() as u64) as usize; out.push(("truncated", false, base[..n].to_vec())); }
    out.push(("truncated", false, base[..base.len() - 1].to_vec()));
    // a field removed
    for i in 0..d.0.len() { let mut e = d.clone(); e.0.remove(i); out.push(("removed", false, compose(&e, r, false))); }
    // fields permuted
    for _ in 0..3 { let mut e = d.clone(); for i in (1..e.0.len()).rev() { let j = r.below(i as u64 + 1) as usize; e.0.swap(i, j); }
        let sp = r.chance(1, 3); out.push(("reordered", false, compose(&e, r, sp))); }
    // an unknown field (serde ignores it)
    for v in [&b"1"[..], b"\"x\"", b"{\"a\":[1,2,{\"b\":null}]}", b"[]", b"nul"] {
        let mut e = d.clone(); let at = r.below(e.0.len() as u64 + 1) as usize; e.0.insert(at, (b"other".to_vec(), v.to_vec())); out.push(("unknown-field", true, compose(&e, r, false))); }
    // a duplicated field
    { let mut e = d.clone(); let i = r.below(e.0.len() as u64) as usize; let f = e.0[i].clone(); e.0.push(f); out.push(("duplicate-field", false, compose(&e, r, false))); }
    { let mut e = d.clone(); let f = e.0[0].clone(); e.0.insert(1, f); out.push(("duplicate-field", false, compose(&e, r, false))); }
    // a key spelled with an escape
    { let mut e = d.clone(); let k = e.0[0].0.clone(); let mut k2 = format!("\\u{:04x}", k[0]).into_bytes(); k2.extend_from_slice(&k[1..]); e.0[0].0 = k2; out.push(("escaped-key", false, compose(&e, r, false))); }
    { let mut e = d.clone(); e.0[0].0[0] = e.0[0].0[0].to_ascii_uppercase(); out.push(("unknown-field", true, compose(&e, r, false))); }
    // wrong type / malformed value in every field
    for i in 0..d.0.len() { for _ in 0..3 { let mut e = d.clone(); e.0[i].1 = r.pick(WRONG).to_vec(); out.push(("wrong-type", false, compose(&e, r, false))); } }
    // numbers
    for n in NUMS { out.push(("number", false, compose(&put(d, numkey, n), r, false))); }
    // uuids
    for u in UUIDS { out.push(("uuid", false, compose(&put(d, idkey, &qs(u)), r, false))); }
    // strings: other spellings, bad escapes, bad bytes
    for (k, s) in strings { out.push(("respelled", false, compose(&put(d, k, &respell(r, s)), r, false))); }
    for b in BAD_STRINGS { let k = strings[r.below(strings.len() as u64) as usize].0; out.push(("string", false, compose(&put(d, k, b), r, false))); }
    // separators
    { let mut v = base.clone(); v.insert(v.len() - 1, b','); out.push(("trailing-comma", false, v)); }
    { let v: Vec<u8> = base.iter().map(|&c| if c == b':' { b'=' } else { c }).collect(); out.push(("separator", false, v)); }
    { let p = base.iter().position(|&c| c == b',').unwrap(); let mut v = base.clone(); v[p] = b';'; out.push(("separator", false, v)); }
    { let p = base.iter().position(|&c| c == b',').unwrap(); let mut v = base.clone(); v.insert(p, b','); out.push(("separator", false, v)); }
    { let mut v = base.clone(); v[1] = b'\''; out.push(("separator", false, v)); }
    { let mut v = base.clone(); v.insert(1, b','); out.push(("separator", false, v)); }
    { let mut v = base.clone(); v.insert(1, 0x0c); out.push(("whitespace", false, v)); }
    { let mut v = base.clone(); v.insert(1, 0xa0); out.push(("whitespace", false, v)); }
    { let mut v = vec![0xef, 0xbb, 0xbf]; v.extend_from_slice(&base); out.push(("whitespace", false, v)); }
    // trailing input
    for t in [&b"x"[..], b"}", b" ", b"\n\t\r ", b",", b"null", b"{}", b"\x00", b" x"] { let mut v = base.clone(); v.extend_from_slice(t); out.push(("trailing", false, v)); }
    // other documents
    for t in [&b"null"[..], b" null ", b"nul", b"nullx", b"null,", b"n", b"NULL", b"{}", b" { } ", b"[]", b"", b" ", b"true", b"0", b"\"x\"", b"{", b"}", b"{\"", b"{,}", b"[null]", b"{\"a\"}"] {
        out.push(("document", t == b"[]", t.to_vec())); }
    // the array form of the struct (serde's visit_seq)
    { let mut v = vec![b'[']; for (i, (_, x)) in d.0.iter().enumerate() { if i > 0 { v.push(b','); } v.extend_from_slice(x); } v.push(b']'); out.push(("array-form", true, v)); }
    // byte-level noise: a few random edits (replace / insert / delete, biased to JSON punctuation)
    for _ in 0..40 {
        let mut v = if r.chance(1, 4) { compose(d, r, true) } else { base.clone() };
        for _ in 0..(1 + r.below(3)) {
            if v.is_empty() { break; }
            let at = r.below(v.len() as u64) as usize;
            let b = if r.chance(2, 3) { *r.pick(b"\"\\{}[],:0123456789-.eEnultrufalse \n\tu/") } else { r.next() as u8 };
            match r.below(3) { 0 => v[at] = b, 1 => v.insert(at, b), _ => { v.remove(at); } }
        }
        out.push(("noise", false, v));
    }
    let _ = session;
    out
}

fn json_families(r: &mut Rng, scale: usize) {
    let mut n_js = 0usize; let mut n_jp = 0usize; let mut n_ok = 0usize; let mut n_expected_outside = 0usize;
    let mut labels: std::collections::BTreeMap<&'static str, (usize, usize)> = Default::default();
    // ---- JS: records written by the real serde_json
    for _ in 0..(60 * scale) {
        let c = rnd_auth(r);
        emit_case("JS", &format!("(JSA {} {})", g_auth_cookie(&c), g_hex(&js(&c)))); n_js += 1;
    }
    for _ in 0..(30 * scale) {
        let c = rnd_session(r);
        emit_case("JS", &format!("(JSS {} {} {})", g_opt(c.trace_id.as_ref().map(|t| g_str(t))), g_session_cookie(&c), g_hex(&js(&c)))); n_js += 1;
    }
    // ---- JP: byte strings read by the real serde_json
    let mut emit_a = |label: &'static str, outside: bool, b: &[u8], n_jp: &mut usize, n_ok: &mut usize, n_eo: &mut usize| {
        let v = jres_auth(b); let e = labels.entry(label).or_default(); e.0 += 1; if v != "JErr" { *n_ok += 1; e.1 += 1; }
        if outside { *n_eo += 1; }
        emit_case("JP", &format!("(JPA {} {})", g_hex(b), v)); *n_jp += 1;
    };
    for _ in 0..(6 * scale) {
        let c = rnd_auth(r);
        let d = auth_doc(&c);
        assert_eq!(compose(&d, r, false), js(&c));
        let strings = vec![("user_name", c.user_name.clone()), ("client_addr", c.client_addr.to_string()), ("user_id", c.user_id.to_string()),
                           ("target", c.target.clone().unwrap_or("t/".into()))];
        for (l, o, b) in mutations(r, &d, &strings, "timestamp", "user_id", false) { emit_a(l, o, &b, &mut n_jp, &mut n_ok, &mut n_expected_outside); }
        for a in ADDRS { emit_a("address", false, &compose(&put(&d, "client_addr", &qs(a)), r, false), &mut n_jp, &mut n_ok, &mut n_expected_outside); }
        // target
        for t in [&b"null"[..], b" null", b"nul", b"nulL", b"\"\"", b"\"null\""] { emit_a("target", false, &compose(&put(&d, "target", t), r, false), &mut n_jp, &mut n_ok, &mut n_expected_outside); }
        // extra: several entries (hand-written: a HashMap would print them in a random order), duplicates, wrong values
        for (o, t) in [(false, &b"{\"b\":\"2\",\"a\":\"1\"}"[..]), (false, b"{\"a\":\"1\",\"ab\":\"\",\"\":\"x\",\"B\":\"\\u00e4\"}"), (true, b"{\"a\":\"1\",\"a\":\"2\"}"), (true, b"{\"a\":\"1\",\"b\":\"2\",\"\\u0061\":\"3\"}"),
                       (false, b"{\"a\":1}"), (false, b"{\"a\":null}"), (false, b"{\"a\":\"1\",}"), (false, b"{a:\"1\"}"), (false, b"{1:\"1\"}"), (false, b"[]"), (false, b"null"), (false, b" { \"k\" : \"v\" } "), (false, b"{\"a\":\"1\" \"b\":\"2\"}"),
                       (false, b"{\"\xc3\xa4\":\"1\",\"z\":\"2\",\"\\u00e4b\":\"3\"}"), (false, b"{\"a\":\"\xff\"}")] {
            emit_a("extra", o, &compose(&put(&d, "extra", t), r, false), &mut n_jp, &mut n_ok, &mut n_expected_outside); }
        // profile_properties: element level mutations
        let p = rnd_prop(r);
        let pd = Doc(vec![(b"name".to_vec(), js(&p.name)), (b"value".to_vec(), js(&p.value)), (b"signature".to_vec(), js(&p.signature))]);
        let mut elems: Vec<(bool, Vec<u8>)> = vec![];
        elems.push((false, compose(&pd, r, true)));
        for i in 0..3 { let mut e = pd.clone(); e.0.remove(i); elems.push((false, compose(&e, r, false))); }
        { let mut e = pd.clone(); e.0.reverse(); elems.push((false, compose(&e, r, false))); }
        { let mut e = pd.clone(); e.0.push((b"Signature".to_vec(), b"null".to_vec())); elems.push((true, compose(&e, r, false))); }
        { let mut e = pd.clone(); let f = e.0[1].clone(); e.0.push(f); elems.push((false, compose(&e, r, false))); }
        { let mut e = pd.clone(); e.0[2].1 = b"7".to_vec(); elems.push((false, compose(&e, r, false))); }
        { let mut e = pd.clone(); e.0[0].1 = b"null".to_vec(); elems.push((false, compose(&e, r, false))); }
        { let mut v = vec![b'[']; v.extend_from_slice(&pd.0[0].1); v.push(b','); v.extend_from_slice(&pd.0[1].1); v.push(b','); v.extend_from_slice(&pd.0[2].1); v.push(b']'); elems.push((true, v)); }
        elems.push((false, b"null".to_vec())); elems.push((false, b"{}".to_vec())); elems.push((false, b"\"x\"".to_vec()));
        for (o, e) in elems {
            let mut v = vec![b'[']; if r.chance(1, 2) { v.extend(compose(&pd, r, false)); v.push(b','); } v.extend_from_slice(&e); v.push(b']');
            emit_a("property", o, &compose(&put(&d, "profile_properties", &v), r, false), &mut n_jp, &mut n_ok, &mut n_expected_outside);
        }
        let one = compose(&pd, r, false);
        for t in [&b"[,]"[..], b"[", b"[]x", b"[ ]", b"{}", b"null", b"\"\""] { emit_a("property", false, &compose(&put(&d, "profile_properties", t), r, false), &mut n_jp, &mut n_ok, &mut n_expected_outside); }
        for (pre, post) in [(&b"["[..], &b",]"[..]), (b"[", b" , ]"), (b"[,", b"]"), (b"[", b"]]"), (b"[", b""), (b"[", b";"), (b" [ ", b" ] "), (b"[[", b"]]")] {
            let mut v = pre.to_vec(); v.extend_from_slice(&one); v.extend_from_slice(post);
            emit_a("property", false, &compose(&put(&d, "profile_properties", &v), r, false), &mut n_jp, &mut n_ok, &mut n_expected_outside); }
        { let mut v = vec![b'[']; v.extend_from_slice(&one); v.push(b' '); v.extend_from_slice(&one); v.push(b']');
          emit_a("property", false, &compose(&put(&d, "profile_properties", &v), r, false), &mut n_jp, &mut n_ok, &mut n_expected_outside); }
        let _ = get(&d, "extra");
    }
    drop(emit_a);
    let mut emit_s = |label: &'static str, outside: bool, b: &[u8], n_jp: &mut usize, n_ok: &mut usize, n_eo: &mut usize| {
        let v = jres_session(b); let e = labels.entry(label).or_default(); e.0 += 1; if v != "JErr" { *n_ok += 1; e.1 += 1; }
        if outside { *n_eo += 1; }
        emit_case("JP", &format!("(JPS {} {})", g_hex(b), v)); *n_jp += 1;
    };
    for _ in 0..(4 * scale) {
        let c = rnd_session(r);
        let d = session_doc(&c);
        assert_eq!(compose(&d, r, false), js(&c));
        let strings = vec![("server_address", c.server_address.clone()), ("id", c.id.to_string()), ("trace_id", c.trace_id.clone().unwrap_or("/".into()))];
        for (l, o, b) in mutations(r, &d, &strings, "server_port", "id", true) { emit_s(l, o, &b, &mut n_jp, &mut n_ok, &mut n_expected_outside); }
    }
    drop(emit_s);
    emit_note("js_cases", &n_js.to_string());
    emit_note("jp_cases", &n_jp.to_string());
    emit_note("jp_serde_ok", &n_ok.to_string());
    emit_note("jp_expected_outside_model", &n_expected_outside.to_string());
    emit_note("jp_by_mutation(total/serde_ok)", &labels.iter().map(|(k, (a, b))| format!("{}={}/{}", k, a, b)).collect::<Vec<_>>().join(","));
}

fn main() {
    let mut r = Rng::from_env();
    let scale: usize = std::env::var("VERIF_SCALE").ok().and_then(|s| s.parse().ok()).unwrap_or(1);
    let emit = |secret: &[u8], signed: &[u8]| {
        let (ok, msg) = verify(signed, secret);
        emit_case("CK", &format!("(CK {} {} {} {})", g_hex(secret), g_hex(signed), g_bool(ok), g_hex(msg)));
    };
    for i in 0..(6 * scale) {
        let slen = *r.pick(&[0usize, 1, 16, 64, 65, 200]);
        let secret = r.bytes(slen);
        let mlen = if i % 3 == 0 { 0 } else { 1 + r.below(120) as usize };
        let msg = r.bytes(mlen);
        let signed = sign(&msg, &secret);
        emit_case("SG", &format!("(SG {} {} {})", g_hex(&secret), g_hex(&msg), g_hex(&signed)));
        emit(&secret, &signed);
        // single-bit flips spread over tag and body
        for _ in 0..6 { let mut v = signed.clone(); let b = r.below(v.len() as u64 * 8) as usize; v[b / 8] ^= 1 << (b % 8); emit(&secret, &v); }
        // the same bit flipped in two different tag bytes (cancels in any XOR-style checksum)
        for _ in 0..6 { let mut v = signed.clone(); let (a, b) = (r.below(32) as usize, r.below(32) as usize); if a == b { continue; }
            let bit = 1u8 << r.below(8); v[a] ^= bit; v[b] ^= bit; emit(&secret, &v); }
        // two tag bytes exchanged (keeps every byte-sum / XOR of the tag)
        for _ in 0..3 { let mut v = signed.clone(); let (a, b) = (r.below(32) as usize, r.below(32) as usize); v.swap(a, b); emit(&secret, &v); }
        // only a prefix / suffix of the tag correct
        { let mut v = signed.clone(); for x in v[16..32].iter_mut() { *x = 0; } emit(&secret, &v); }
        { let mut v = signed.clone(); for x in v[..16].iter_mut() { *x = 0; } emit(&secret, &v); }
        { let mut v = signed.clone(); v[31] = v[31].wrapping_add(1); emit(&secret, &v); }
        // truncations around the tag length
        for t in [0usize, 1, 31, 32, 33] { if t <= signed.len() { emit(&secret, &signed[..t]); } }
        // other secrets: extended, truncated, empty
        { let mut s2 = secret.clone(); s2.push(0); emit(&s2, &signed); }
        if !secret.is_empty() { emit(&secret[..secret.len() - 1], &signed); }
        emit(&[], &signed);
        // tag of another message
        { let other = sign(b"other message", &secret); let mut v = other[..32].to_vec(); v.extend_from_slice(&msg); emit(&secret, &v); }
        // random bytes
        { let n = 20 + r.below(60) as usize; let v = r.bytes(n); emit(&secret, &v); }
    }
    json_families(&mut r, scale);
}
