//! Direct correspondence for passage_protocol::cookie::{sign, verify} (C02 / C10): every case is
//! one call of the real functions; the Gallina side recomputes HMAC-SHA256 from the specification.
use passage_protocol::cookie::{sign, verify};
use vh::*;

fn main() {
    let mut r = Rng::from_env();
    let scale: usize = std::env::var("VERIF_SCALE").ok().and_then(|s| s.parse().ok()).unwrap_or(1);
    let emit = |secret: &[u8], signed: &[u8]| {
        let (ok, msg) = verify(signed, secret);
        emit_case("CK", &format!("(CK {} {} {} {})", g_hex(secret), g_hex(signed), g_bool(ok), g_hex(msg)));
    };
    for i in 0..(6 * scale) {
        let slen = *r.pick(&[0usize, 1, 16, 64, 65, 200]);
        let secret = r.bytes(slen);
        let mlen = if i % 3 == 0 { 0 } else { 1 + r.below(120) as usize };
        let msg = r.bytes(mlen);
        let signed = sign(&msg, &secret);
        emit_case("SG", &format!("(SG {} {} {})", g_hex(&secret), g_hex(&msg), g_hex(&signed)));
        emit(&secret, &signed);
        // single-bit flips spread over tag and body
        for _ in 0..6 { let mut v = signed.clone(); let b = r.below(v.len() as u64 * 8) as usize; v[b / 8] ^= 1 << (b % 8); emit(&secret, &v); }
        // the same bit flipped in two different tag bytes (cancels in any XOR-style checksum)
        for _ in 0..6 { let mut v = signed.clone(); let (a, b) = (r.below(32) as usize, r.below(32) as usize); if a == b { continue; }
            let bit = 1u8 << r.below(8); v[a] ^= bit; v[b] ^= bit; emit(&secret, &v); }
        // two tag bytes exchanged (keeps every byte-sum / XOR of the tag)
        for _ in 0..3 { let mut v = signed.clone(); let (a, b) = (r.below(32) as usize, r.below(32) as usize); v.swap(a, b); emit(&secret, &v); }
        // only a prefix / suffix of the tag correct
        { let mut v = signed.clone(); for x in v[16..32].iter_mut() { *x = 0; } emit(&secret, &v); }
        { let mut v = signed.clone(); for x in v[..16].iter_mut() { *x = 0; } emit(&secret, &v); }
        { let mut v = signed.clone(); v[31] = v[31].wrapping_add(1); emit(&secret, &v); }
        // truncations around the tag length
        for t in [0usize, 1, 31, 32, 33] { if t <= signed.len() { emit(&secret, &signed[..t]); } }
        // other secrets: extended, truncated, empty
        { let mut s2 = secret.clone(); s2.push(0); emit(&s2, &signed); }
        if !secret.is_empty() { emit(&secret[..secret.len() - 1], &signed); }
        emit(&[], &signed);
        // tag of another message
        { let other = sign(b"other message", &secret); let mut v = other[..32].to_vec(); v.extend_from_slice(&msg); emit(&secret, &v); }
        // random bytes
        { let n = 20 + r.below(60) as usize; let v = r.bytes(n); emit(&secret, &v); }
    }
}
