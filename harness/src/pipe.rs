//! Scripted in-memory transport for the server side of a connection: the harness pushes
//! bytes at chosen virtual times, decides how much of each write is accepted, and logs
//! every accepted chunk with its virtual timestamp.
use std::collections::VecDeque;
use std::pin::Pin;
use std::sync::{Arc, Mutex};
use std::task::{Context, Poll, Waker};
use tokio::io::{AsyncRead, AsyncWrite, ReadBuf};
use tokio::sync::Notify;
use tokio::time::Instant;

/// global order of observable events (accepted writes and adapter calls)
pub static SEQ: std::sync::atomic::AtomicU64 = std::sync::atomic::AtomicU64::new(0);
pub fn next_seq() -> u64 { SEQ.fetch_add(1, std::sync::atomic::Ordering::SeqCst) }

#[derive(Clone, Debug)]
pub enum WriteResp {
    Pending,        // poll_write returns Pending once (the harness wakes the writer later)
    Accept(usize),  // accept at most n bytes
}

pub struct PipeState {
    pub start: Instant,
    pub inq: VecDeque<u8>,
    pub eof: bool,
    pub rd_waker: Option<Waker>,
    pub wr_waker: Option<Waker>,
    pub out_log: Vec<(u64, Vec<u8>)>,      // accepted chunks (virtual ms, bytes)
    pub out_seq: Vec<u64>,                 // global sequence number of each accepted chunk
    pub write_script: VecDeque<WriteResp>, // empty = accept everything
    pub reads: Vec<(u64, usize)>,          // (time, bytes handed to the server) per poll_read
    pub write_calls: Vec<(u64, usize, i64)>, // (time, offered, accepted or -1 for Pending)
    pub shutdown: bool,
    pub max_read_chunk: usize,             // 0 = unlimited
    /// write-side tear: the first write offered at or after this virtual time (ms) is accepted only for its
    /// first 3 bytes, the retry of the rest is refused once (Pending; the harness wakes the writer 2 ms later)
    pub tear_at: Option<u64>,
    pub tear_stage: u8,
    pub torn_pending_at: Option<u64>,      // when the refused retry happened
    /// M3 transport: free room (None = unlimited) and the schedule of instants (ms) that set it; active when
    /// `wsched_on` (the harness wakes the writer at every instant of the schedule)
    /// reads answered with "end of stream": a handler that keeps asking is spinning; after 1000 of them the read is left
    /// pending for good (the run then ends by the harness' own limit) and `eof_spin` is set
    pub eof_reads: usize,
    pub eof_spin: bool,
    pub wsched_on: bool,
    pub wcap: Option<usize>,
    pub wsched: VecDeque<(u64, Option<usize>)>,
}

#[derive(Clone)]
pub struct Pipe {
    pub st: Arc<Mutex<PipeState>>,
    pub out_notify: Arc<Notify>,
}

impl Pipe {
    pub fn new() -> Self {
        Pipe {
            st: Arc::new(Mutex::new(PipeState {
                start: Instant::now(), inq: VecDeque::new(), eof: false, rd_waker: None, wr_waker: None,
                out_log: Vec::new(), out_seq: Vec::new(), write_script: VecDeque::new(), reads: Vec::new(), write_calls: Vec::new(),
                shutdown: false, max_read_chunk: 0, tear_at: None, tear_stage: 0, torn_pending_at: None,
                eof_reads: 0, eof_spin: false, wsched_on: false, wcap: None, wsched: VecDeque::new(),
            })),
            out_notify: Arc::new(Notify::new()),
        }
    }
    pub fn now_ms(&self) -> u64 { self.st.lock().unwrap().start.elapsed().as_millis() as u64 }
    /// make bytes readable by the server now
    pub fn push(&self, b: &[u8]) {
        let w = { let mut s = self.st.lock().unwrap(); s.inq.extend(b.iter().copied()); s.rd_waker.take() };
        if let Some(w) = w { w.wake(); }
    }
    pub fn push_eof(&self) {
        let w = { let mut s = self.st.lock().unwrap(); s.eof = true; s.rd_waker.take() };
        if let Some(w) = w { w.wake(); }
    }
    pub fn wake_writer(&self) {
        let w = self.st.lock().unwrap().wr_waker.take();
        if let Some(w) = w { w.wake(); }
    }
    pub fn out_len(&self) -> usize { self.st.lock().unwrap().out_log.iter().map(|c| c.1.len()).sum() }
}

pub struct ServerEnd(pub Pipe);

impl AsyncRead for ServerEnd {
    fn poll_read(self: Pin<&mut Self>, cx: &mut Context<'_>, buf: &mut ReadBuf<'_>) -> Poll<std::io::Result<()>> {
        let mut s = self.0.st.lock().unwrap();
        if !s.inq.is_empty() {
            let mut n = buf.remaining().min(s.inq.len());
            if s.max_read_chunk > 0 { n = n.min(s.max_read_chunk); }
            let chunk: Vec<u8> = s.inq.drain(..n).collect();
            buf.put_slice(&chunk);
            let t = s.start.elapsed().as_millis() as u64;
            s.reads.push((t, n));
            return Poll::Ready(Ok(()));
        }
        if s.eof {
            s.eof_reads += 1;
            if s.eof_reads > 1000 { s.eof_spin = true; return Poll::Pending; }
            return Poll::Ready(Ok(()));
        }
        s.rd_waker = Some(cx.waker().clone());
        Poll::Pending
    }
}

impl AsyncWrite for ServerEnd {
    fn poll_write(self: Pin<&mut Self>, cx: &mut Context<'_>, buf: &[u8]) -> Poll<std::io::Result<usize>> {
        let notify = self.0.out_notify.clone();
        let mut s = self.0.st.lock().unwrap();
        let t = s.start.elapsed().as_millis() as u64;
        let mut resp = s.write_script.pop_front().unwrap_or(WriteResp::Accept(usize::MAX));
        if let Some(ta) = s.tear_at {
            if t >= ta && s.tear_stage == 0 && buf.len() > 3 { s.tear_stage = 1; resp = WriteResp::Accept(3); }
            else if s.tear_stage == 1 { s.tear_stage = 2; s.torn_pending_at = Some(t); resp = WriteResp::Pending; }
        }
        if s.wsched_on {
            while let Some((te, c)) = s.wsched.front().cloned() { if te <= t { s.wcap = c; s.wsched.pop_front(); } else { break; } }
            resp = match s.wcap { None => WriteResp::Accept(usize::MAX), Some(0) => WriteResp::Pending, Some(n) => WriteResp::Accept(n) };
            if let (Some(n), false) = (s.wcap, buf.is_empty()) { s.wcap = Some(n - n.min(buf.len())); }
        }
        match resp {
            WriteResp::Pending => {
                s.write_calls.push((t, buf.len(), -1));
                s.wr_waker = Some(cx.waker().clone());
                drop(s);
                notify.notify_waiters();
                Poll::Pending
            }
            WriteResp::Accept(n) => {
                let n = n.min(buf.len()).max(if buf.is_empty() { 0 } else { 1 });
                s.write_calls.push((t, buf.len(), n as i64));
                s.out_log.push((t, buf[..n].to_vec()));
                s.out_seq.push(next_seq());
                drop(s);
                notify.notify_waiters();
                Poll::Ready(Ok(n))
            }
        }
    }
    fn poll_flush(self: Pin<&mut Self>, _cx: &mut Context<'_>) -> Poll<std::io::Result<()>> { Poll::Ready(Ok(())) }
    fn poll_shutdown(self: Pin<&mut Self>, _cx: &mut Context<'_>) -> Poll<std::io::Result<()>> {
        self.0.st.lock().unwrap().shutdown = true;
        Poll::Ready(Ok(()))
    }
}
