//! Shared helpers of the correspondence harness: one seeded PRNG, Gallina term
//! printers, a counting allocator, boundary-dense value generators.
pub mod connrun;
pub mod pipe;

use std::alloc::{GlobalAlloc, Layout, System};
use std::sync::atomic::{AtomicUsize, Ordering};

// ---------------------------------------------------------------- PRNG (SplitMix64)
pub struct Rng(pub u64);
impl Rng {
    pub fn from_env() -> Self {
        let seed = std::env::var("VERIF_SEED").ok().and_then(|s| s.parse::<u64>().ok()).unwrap_or(1);
        Rng(seed ^ 0x9E37_79B9_7F4A_7C15)
    }
    pub fn next(&mut self) -> u64 {
        self.0 = self.0.wrapping_add(0x9E37_79B9_7F4A_7C15);
        let mut z = self.0;
        z = (z ^ (z >> 30)).wrapping_mul(0xBF58_476D_1CE4_E5B9);
        z = (z ^ (z >> 27)).wrapping_mul(0x94D0_49BB_1331_11EB);
        z ^ (z >> 31)
    }
    pub fn below(&mut self, n: u64) -> u64 { if n == 0 { 0 } else { self.next() % n } }
    pub fn range(&mut self, lo: i64, hi: i64) -> i64 { lo + self.below((hi - lo + 1) as u64) as i64 }
    pub fn chance(&mut self, num: u64, den: u64) -> bool { self.below(den) < num }
    pub fn pick<'a, T>(&mut self, xs: &'a [T]) -> &'a T { &xs[self.below(xs.len() as u64) as usize] }
    pub fn bytes(&mut self, n: usize) -> Vec<u8> { (0..n).map(|_| self.next() as u8).collect() }

    /// boundary-dense i64 within [lo, hi]
    pub fn boundary(&mut self, lo: i128, hi: i128) -> i128 {
        let mut cands: Vec<i128> = vec![lo, hi, 0, 1, -1, lo + 1, hi - 1];
        for k in [7u32, 8, 14, 15, 16, 21, 28, 31, 32, 35, 42, 49, 56, 63, 64] {
            let p = 1i128 << k;
            cands.extend_from_slice(&[p - 1, p, p + 1, -p, -p - 1, -p + 1]);
        }
        let cands: Vec<i128> = cands.into_iter().filter(|c| *c >= lo && *c <= hi).collect();
        if self.chance(2, 3) {
            *self.pick(&cands)
        } else {
            let span = (hi - lo + 1) as u128;
            let r = ((self.next() as u128) << 64 | self.next() as u128) % span;
            lo + r as i128
        }
    }

    /// a string that is valid UTF-8: mixes ASCII, 2-, 3- and 4-byte scalars
    pub fn utf8(&mut self, max_chars: usize) -> String {
        let n = self.below(max_chars as u64 + 1) as usize;
        let mut s = String::new();
        for _ in 0..n {
            let c = match self.below(10) {
                0 => char::from_u32(0x80 + self.below(0x780) as u32),
                1 => char::from_u32(0x800 + self.below(0xD000) as u32),
                2 => char::from_u32(0x1_0000 + self.below(0x10_0000) as u32),
                3 => Some(*self.pick(&['\u{0}', '\u{7f}', '\u{80}', '\u{7ff}', '\u{800}', '\u{ffff}', '\u{10000}', '\u{10ffff}', '\u{d7ff}', '\u{e000}'])),
                _ => char::from_u32(0x20 + self.below(0x5f) as u32),
            };
            s.push(c.unwrap_or('?'));
        }
        s
    }
}

// ---------------------------------------------------------------- Gallina printers
pub fn g_hex(b: &[u8]) -> String {
    // long literals are split: coqc's string parser overflows its stack on ~64 kB strings
    if b.len() > 1500 {
        let parts: Vec<String> = b.chunks(1500).map(g_hex).collect();
        return format!("({})", parts.join(" ++ "));
    }
    let mut s = String::with_capacity(b.len() * 2 + 8);
    s.push_str("(hx \"");
    for x in b { s.push_str(&format!("{:02x}", x)); }
    s.push_str("\")");
    s
}
pub fn g_z<T: Into<i128>>(v: T) -> String {
    let v: i128 = v.into();
    if v < 0 { format!("({})", v) } else { format!("{}", v) }
}
pub fn g_u128(v: u128) -> String { format!("{}", v) }
pub fn g_bool(b: bool) -> String { if b { "true".into() } else { "false".into() } }
pub fn g_list(items: &[String]) -> String { format!("[{}]", items.join("; ")) }
pub fn g_opt(o: Option<String>) -> String { match o { Some(s) => format!("(Some {})", s), None => "None".into() } }
pub fn g_str(s: &str) -> String { g_hex(s.as_bytes()) }

/// one case line: `CASE <family> <gallina term>`; `NOTE` lines carry the distribution
pub fn emit_case(family: &str, term: &str) { println!("CASE {} {}", family, term); }
pub fn emit_note(key: &str, val: &str) { println!("NOTE {} {}", key, val); }

// ---------------------------------------------------------------- counting allocator
pub struct CountingAlloc;
pub static MAX_REQUEST: AtomicUsize = AtomicUsize::new(0);
pub static LIVE: AtomicUsize = AtomicUsize::new(0);
pub static PEAK_LIVE: AtomicUsize = AtomicUsize::new(0);
unsafe impl GlobalAlloc for CountingAlloc {
    unsafe fn alloc(&self, l: Layout) -> *mut u8 {
        MAX_REQUEST.fetch_max(l.size(), Ordering::Relaxed);
        let live = LIVE.fetch_add(l.size(), Ordering::Relaxed) + l.size();
        PEAK_LIVE.fetch_max(live, Ordering::Relaxed);
        unsafe { System.alloc(l) }
    }
    unsafe fn alloc_zeroed(&self, l: Layout) -> *mut u8 {
        MAX_REQUEST.fetch_max(l.size(), Ordering::Relaxed);
        let live = LIVE.fetch_add(l.size(), Ordering::Relaxed) + l.size();
        PEAK_LIVE.fetch_max(live, Ordering::Relaxed);
        unsafe { System.alloc_zeroed(l) }
    }
    unsafe fn dealloc(&self, p: *mut u8, l: Layout) {
        LIVE.fetch_sub(l.size(), Ordering::Relaxed);
        unsafe { System.dealloc(p, l) }
    }
    unsafe fn realloc(&self, p: *mut u8, l: Layout, new: usize) -> *mut u8 {
        MAX_REQUEST.fetch_max(new, Ordering::Relaxed);
        if new >= l.size() {
            let live = LIVE.fetch_add(new - l.size(), Ordering::Relaxed) + (new - l.size());
            PEAK_LIVE.fetch_max(live, Ordering::Relaxed);
        } else {
            LIVE.fetch_sub(l.size() - new, Ordering::Relaxed);
        }
        unsafe { System.realloc(p, l, new) }
    }
}
pub fn alloc_reset() { MAX_REQUEST.store(0, Ordering::Relaxed); PEAK_LIVE.store(LIVE.load(Ordering::Relaxed), Ordering::Relaxed); }
pub fn alloc_max_request() -> usize { MAX_REQUEST.load(Ordering::Relaxed) }

/// run a future to completion on a fresh current-thread runtime
pub fn block_on<F: std::future::Future>(f: F) -> F::Output {
    tokio::runtime::Builder::new_current_thread().enable_all().build().unwrap().block_on(f)
}

/// silence the default panic message for expected panics (caught by catch_unwind)
pub fn quiet_panics() {
    if std::env::var("VERIF_LOUD").is_ok() { return; }
    std::panic::set_hook(Box::new(|_| {}));
}
